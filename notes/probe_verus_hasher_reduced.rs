use vstd::prelude::*;
use vstd::string::StringSliceAdditionalSpecFns;
verus! {

pub enum DataModelType {
    Bool,
    U8,
    Option(&'static Self),
    Tuple(&'static [&'static Self]),
    Struct {
        name: &'static str,
        data: Data,
    },
    Enum {
        name: &'static str,
        variants: &'static [&'static Variant],
    },
}
pub enum Data {
    Unit,
    Newtype(&'static DataModelType),
    Tuple(&'static [&'static DataModelType]),
    Struct(&'static [&'static NamedField]),
}
pub struct NamedField {
    pub name: &'static str,
    pub ty: &'static DataModelType,
}
pub struct Variant {
    pub name: &'static str,
    pub data: Data,
}

pub struct Fnv1a64Hasher { state: u64 }
impl Fnv1a64Hasher {
    const BASIS: u64 = 0xcbf2_9ce4_8422_2325;
    const PRIME: u64 = 0x0000_0100_0000_01b3;
}

pub open spec fn fnv_step(s: u64, b: u8) -> u64 {
    (((s ^ (b as u64)) as int * 0x0000_0100_0000_01b3int) % 0x1_0000_0000_0000_0000int) as u64
}
pub open spec fn fnv(s: u64, bytes: Seq<u8>) -> u64
    decreases bytes.len()
{
    if bytes.len() == 0 { s } else { fnv_step(fnv(s, bytes.drop_last()), bytes.last()) }
}
proof fn fnv_concat(s: u64, a: Seq<u8>, b: Seq<u8>)
    ensures fnv(s, a + b) == fnv(fnv(s, a), b)
    decreases b.len()
{
    if b.len() == 0 { assert(a + b =~= a); }
    else {
        assert((a + b).drop_last() =~= a + b.drop_last());
        fnv_concat(s, a, b.drop_last());
    }
}

pub open spec fn st_ty(t: &DataModelType) -> Seq<u8>
    decreases t, 0int, 0int
{
    match t {
        DataModelType::Bool => seq![0x11u8],
        DataModelType::U8 => seq![0x3Du8],
        DataModelType::Option(i) => seq![0x6Du8] + st_ty(i),
        DataModelType::Tuple(ts) => seq![0xA7u8] + st_tys(ts@, ts@.len() as int),
        DataModelType::Struct { name, data } => st_data_s(data),
        DataModelType::Enum { name, variants } => seq![0xE9u8] + st_vars(variants@, variants@.len() as int),
    }
}
// stream of the first n element types
pub open spec fn st_tys(ts: Seq<&'static DataModelType>, n: int) -> Seq<u8>
    decreases ts, 1int, n
{
    if 0 < n <= ts.len() { st_tys(ts, n - 1) + st_ty(ts[n - 1]) } else { seq![] }
}
pub open spec fn st_nfs(ts: Seq<&'static NamedField>, n: int) -> Seq<u8>
    decreases ts, 1int, n
{
    if 0 < n <= ts.len() { st_nfs(ts, n - 1) + st_nf(ts[n - 1]) } else { seq![] }
}
pub open spec fn st_vars(ts: Seq<&'static Variant>, n: int) -> Seq<u8>
    decreases ts, 1int, n
{
    if 0 < n <= ts.len() { st_vars(ts, n - 1) + st_var(ts[n - 1]) } else { seq![] }
}
pub open spec fn st_nf(f: &NamedField) -> Seq<u8>
    decreases f, 0int, 0int
{
    f.name.spec_bytes() + st_ty(f.ty)
}
pub open spec fn st_var(v: &Variant) -> Seq<u8>
    decreases v, 0int, 0int
{
    v.name.spec_bytes() + match v.data {
        Data::Unit => seq![0xB5u8],
        Data::Newtype(t) => seq![0xDFu8] + st_ty(t),
        Data::Tuple(ts) => seq![0xC7u8] + st_tys(ts@, ts@.len() as int),
        Data::Struct(fs) => seq![0x67u8] + st_nfs(fs@, fs@.len() as int),
    }
}
pub open spec fn st_data_s(d: &Data) -> Seq<u8>
    decreases d, 0int, 0int
{
    match d {
        Data::Unit => seq![0xBFu8],
        Data::Newtype(t) => seq![0x9Du8] + st_ty(t),
        Data::Tuple(ts) => seq![0x05u8] + st_tys(ts@, ts@.len() as int),
        Data::Struct(fs) => seq![0x7Fu8] + st_nfs(fs@, fs@.len() as int),
    }
}


    pub(crate) const fn hash_update(mut state: u64, bytes: &[u8]) -> (r: u64)
        ensures r == fnv(state, bytes@)
    {
        let mut idx = 0;
        let ghost s0 = state;
        while idx < bytes.len()
            invariant idx <= bytes.len(), state == fnv(s0, bytes@.subrange(0, idx as int))
            decreases bytes.len() - idx
        {
            let ext = bytes[idx] as u64;
            state ^= ext;
            state = state.wrapping_mul(Fnv1a64Hasher::PRIME);
            idx += 1;
            proof {
                assert(bytes@.subrange(0, idx as int).drop_last() =~= bytes@.subrange(0, idx as int - 1));
            }
        }
        proof { assert(bytes@.subrange(0, idx as int) =~= bytes@); }
        state
    }

    #[verifier::exec_allows_no_decreases_clause]
    const fn hash_sdm_type(state: u64, sdmty: &'static DataModelType) -> (r: u64)
        ensures r == fnv(state, st_ty(sdmty))
    {
        match sdmty {
            DataModelType::Bool => hash_update(state, &[0x11]),
            DataModelType::U8 => hash_update(state, &[0x3D]),
            DataModelType::Option(t) => {
                let state = hash_update(state, &[0x6D]);
                hash_sdm_type(state, t)
            }
            DataModelType::Tuple(ts) => {
                let mut state = hash_update(state, &[0xA7]);
                let ghost s1 = state;
                let mut idx = 0;
                while idx < ts.len()
                    invariant idx <= ts.len(), state == fnv(s1, st_tys(ts@, idx as int))
                {
                    state = hash_sdm_type(state, ts[idx]);
                    proof { fnv_concat(s1, st_tys(ts@, idx as int), st_ty(ts[idx as int])); }
                    idx += 1;
                }
                state
            }
            DataModelType::Struct { name, data } => hash_struct(state, name, data),
            DataModelType::Enum { name: _, variants } => {
                let mut state = hash_update(state, &[0xE9]);
                let ghost s1 = state;
                let mut idx = 0;
                while idx < variants.len()
                    invariant idx <= variants.len(), state == fnv(s1, st_vars(variants@, idx as int))
                {
                    state = hash_variant(state, variants[idx]);
                    proof { fnv_concat(s1, st_vars(variants@, idx as int), st_var(variants[idx as int])); }
                    idx += 1;
                }
                state
            }
        }
    }
    #[verifier::exec_allows_no_decreases_clause]
    const fn hash_struct(state: u64, _name: &str, data: &Data) -> (r: u64)
        ensures r == fnv(state, st_data_s(data))
    {
        match data {
            Data::Unit => hash_update(state, &[0xBF]),
            Data::Newtype(dmt) => {
                let state = hash_update(state, &[0x9D]);
                hash_sdm_type(state, dmt)
            }
            Data::Tuple(dmts) => {
                let mut state = hash_update(state, &[0x05]);
                let ghost s1 = state;
                let mut idx = 0;
                while idx < dmts.len()
                    invariant idx <= dmts.len(), state == fnv(s1, st_tys(dmts@, idx as int))
                {
                    state = hash_sdm_type(state, dmts[idx]);
                    proof { fnv_concat(s1, st_tys(dmts@, idx as int), st_ty(dmts[idx as int])); }
                    idx += 1;
                }
                state
            }
            Data::Struct(nfs) => {
                let mut state = hash_update(state, &[0x7F]);
                let ghost s1 = state;
                let mut idx = 0;
                while idx < nfs.len()
                    invariant idx <= nfs.len(), state == fnv(s1, st_nfs(nfs@, idx as int))
                {
                    state = hash_named_field(state, nfs[idx]);
                    proof { fnv_concat(s1, st_nfs(nfs@, idx as int), st_nf(nfs[idx as int])); }
                    idx += 1;
                }
                state
            }
        }
    }
    #[verifier::exec_allows_no_decreases_clause]
    const fn hash_variant(state: u64, nt: &Variant) -> (r: u64)
        ensures r == fnv(state, st_var(nt))
    {
        let ghost s00 = state;
        let state = hash_update(state, nt.name.as_bytes());
        match nt.data {
            Data::Unit => hash_update(state, &[0xB5]),
            Data::Newtype(t) => {
                let state = hash_update(state, &[0xDF]);
                hash_sdm_type(state, t)
            }
            Data::Tuple(ts) => {
                let mut state = hash_update(state, &[0xC7]);
                let ghost s1 = state;
                let mut idx = 0;
                while idx < ts.len()
                    invariant idx <= ts.len(), state == fnv(s1, st_tys(ts@, idx as int))
                {
                    state = hash_sdm_type(state, ts[idx]);
                    proof { fnv_concat(s1, st_tys(ts@, idx as int), st_ty(ts[idx as int])); }
                    idx += 1;
                }
                state
            }
            Data::Struct(fields) => {
                let mut state = hash_update(state, &[0x67]);
                let ghost s1 = state;
                let mut idx = 0;
                while idx < fields.len()
                    invariant idx <= fields.len(), state == fnv(s1, st_nfs(fields@, idx as int))
                {
                    state = hash_named_field(state, fields[idx]);
                    proof { fnv_concat(s1, st_nfs(fields@, idx as int), st_nf(fields[idx as int])); }
                    idx += 1;
                }
                state
            }
        }
    }
    #[verifier::exec_allows_no_decreases_clause]
    const fn hash_named_field(state: u64, nt: &NamedField) -> (r: u64)
        ensures r == fnv(state, st_nf(nt))
    {
        let state = hash_update(state, nt.name.as_bytes());
        hash_sdm_type(state, nt.ty)
    }

pub broadcast proof fn lemma_fnv_concat(s: u64, a: Seq<u8>, b: Seq<u8>)
    ensures #[trigger] fnv(fnv(s, a), b) == fnv(s, a + b)
{ fnv_concat(s, a, b); }

} // verus!
fn main() {}
