use vstd::prelude::*;
verus! {

global size_of usize == 8;

pub open spec fn enc(v: nat) -> Seq<u8>
    decreases v
{
    if v < 128 { seq![v as u8] } else { seq![((v % 128) + 128) as u8] + enc(v / 128) }
}

#[verifier::external_body]
pub fn le0_u16(v: u16) -> (r: u8)
    ensures r == (v & 0xff) as u8
{ v.to_le_bytes()[0] }

pub const fn varint_max<T: Sized>() -> (r: usize)
    requires vstd::layout::size_of::<T>() <= 1024
    ensures r == (vstd::layout::size_of::<T>() * 8 + 6) / 7
{
    let bits = core::mem::size_of::<T>() * 8;
    let roundup_bits = bits + (7 - 1);
    roundup_bits / 7
}

proof fn lem_low(value: u16, b: u8)
    requires b == (value & 0xff) as u8
    ensures value < 128 ==> b == value as u8,
            value >= 128 ==> (b | 0x80) == ((value as nat % 128) + 128) as u8,
            (value >> 7) as nat == value as nat / 128,
{
    assert(value < 128 ==> (value & 0xff) as u8 == value as u8) by (bit_vector);
    assert(((value & 0xff) as u8 | 0x80) == ((value % 128) + 128) as u8) by (bit_vector);
    assert((value >> 7) == value / 128) by (bit_vector);
}

pub fn varint_u16(n: u16, out: &mut [u8; 3]) -> (r: &mut [u8])
    ensures r@ == enc(n as nat)
{
    let mut value = n;
    let ghost mut pre: Seq<u8> = seq![];
    for i in 0..varint_max::<u16>()
        invariant
            pre.len() == i,
            forall|j: int| 0 <= j < i ==> out[j] == pre[j],
            enc(n as nat) == pre + enc(value as nat),
            i == 0 ==> value == n,
            i == 1 ==> value <= 0x1ff,
            i == 2 ==> value <= 0x3,
            i == 3 ==> false,
    {
        out[i] = le0_u16(value);
        let ghost b0 = out[i as int];
        proof { lem_low(value, b0); }
        if value < 128 {
            assert(out@.subrange(0, i + 1) =~= pre + enc(value as nat));
            return &mut out[..=i];
        }

        out[i] |= 0x80;
        proof {
            let b = out[i as int];
            assert(b == ((value as nat % 128) + 128) as u8);
            assert(enc(value as nat) == seq![b] + enc(value as nat / 128));
            pre = pre.push(b);
            assert(pre + enc(value as nat / 128) =~= pre.drop_last() + (seq![b] + enc(value as nat / 128)));
        }
        let ghost oldv = value;
        value >>= 7;
        proof {
            assert(value <= oldv / 128) by { lem_low(oldv, (oldv & 0xff) as u8); }
        }
    }
    &mut out[..]
}

} // verus!
fn main() {}
