use vstd::prelude::*;
verus! {

pub struct CobsAccumulator<const N: usize> {
    buf: [u8; N],
    idx: usize,
}

pub enum FeedResult<'a, T> {
    Consumed,
    OverFull(&'a [u8]),
    DeserError(&'a [u8]),
    Success {
        data: T,
        remaining: &'a [u8],
    },
}

pub enum Error { Bad }
pub type Result<T> = ::core::result::Result<T, Error>;

// ---------------- specification (written from the property statement) ----------------
pub uninterp spec fn spec_from_bytes_cobs<T>(s: Seq<u8>) -> Option<T>;

pub enum Outcome<T> { Consumed, OverFull, DeserError, Success(T) }

pub open spec fn has_zero(s: Seq<u8>) -> bool { exists|j: int| 0 <= j < s.len() && s[j] == 0 }
pub open spec fn first_zero(s: Seq<u8>) -> int
    recommends has_zero(s)
{ choose|j: int| 0 <= j < s.len() && s[j] == 0 && forall|k: int| 0 <= k < j ==> s[k] != 0 }

// one feed call: (outcome, remaining chunk, new buffered bytes)
pub open spec fn acc_step<T>(n: nat, view: Seq<u8>, input: Seq<u8>) -> (Outcome<T>, Seq<u8>, Seq<u8>) {
    if input.len() == 0 { (Outcome::Consumed, seq![], view) }
    else if has_zero(input) {
        let z = first_zero(input);
        let take = input.subrange(0, z + 1);
        let release = input.subrange(z + 1, input.len() as int);
        if view.len() + take.len() <= n {
            match spec_from_bytes_cobs::<T>(view + take) {
                Some(t) => (Outcome::Success(t), release, seq![]),
                None => (Outcome::DeserError, release, seq![]),
            }
        } else { (Outcome::OverFull, release, seq![]) }
    } else {
        if view.len() + input.len() > n { (Outcome::OverFull, input.subrange(n - view.len(), input.len() as int), seq![]) }
        else { (Outcome::Consumed, seq![], view + input) }
    }
}

pub open spec fn outcome_of<T>(r: FeedResult<'_, T>) -> Outcome<T> {
    match r {
        FeedResult::Consumed => Outcome::Consumed,
        FeedResult::OverFull(_) => Outcome::OverFull,
        FeedResult::DeserError(_) => Outcome::DeserError,
        FeedResult::Success { data, remaining } => Outcome::Success(data),
    }
}
pub open spec fn remaining_of<T>(r: FeedResult<'_, T>) -> Seq<u8> {
    match r {
        FeedResult::Consumed => seq![],
        FeedResult::OverFull(s) => s@,
        FeedResult::DeserError(s) => s@,
        FeedResult::Success { data, remaining } => remaining@,
    }
}

// ---------------- trusted stubs (rewrites D4, D5) ----------------
#[verifier::external_body]
pub fn from_bytes_cobs<'a, T>(s: &'a mut [u8]) -> (r: Result<T>)
    ensures
        r is Ok ==> spec_from_bytes_cobs::<T>(old(s)@) == Some(r->Ok_0),
        r is Err ==> spec_from_bytes_cobs::<T>(old(s)@) is None,
{ unimplemented!() }

#[verifier::external_body]
pub fn position_zero(input: &[u8]) -> (r: Option<usize>)
    ensures
        match r { Some(n) => n < input.len() && input[n as int] == 0 && forall|j: int| 0 <= j < n ==> input[j] != 0,
                  None => forall|j: int| 0 <= j < input.len() ==> input[j] != 0 }
{ input.iter().position(|&i| i == 0) }

#[verifier::external_body]
pub proof fn axiom_slice_len(s: &[u8]) ensures s.len() <= isize::MAX as usize {}

impl<const N: usize> CobsAccumulator<N> {
    pub closed spec fn wf(&self) -> bool { self.idx <= N && N <= isize::MAX as usize }
    pub closed spec fn view(&self) -> Seq<u8> { self.buf@.subrange(0, self.idx as int) }

    pub fn feed_ref<'de, 'a, T>(&'de mut self, input: &'a [u8]) -> (r: FeedResult<'a, T>)
        requires old(self).wf()
        ensures final(self).wf(),
            (outcome_of(r), remaining_of(r), final(self).view()) == acc_step::<T>(N as nat, old(self).view(), input@),
    {
        proof { axiom_slice_len(input); }
        if input.is_empty() {
            return FeedResult::Consumed;
        }

        let zero_pos = position_zero(input);

        if let Some(n) = zero_pos {
            let (take, release) = input.split_at(n + 1);

            if (self.idx + take.len()) <= N {
                self.extend_unchecked(take);

                let retval = match from_bytes_cobs::<T>(&mut self.buf[..self.idx]) {
                    Ok(t) => FeedResult::Success {
                        data: t,
                        remaining: release,
                    },
                    Err(_) => FeedResult::DeserError(release),
                };
                self.idx = 0;
                retval
            } else {
                self.idx = 0;
                FeedResult::OverFull(release)
            }
        } else {
            if (self.idx + input.len()) > N {
                let new_start = N - self.idx;
                self.idx = 0;
                FeedResult::OverFull(&input[new_start..])
            } else {
                self.extend_unchecked(input);
                FeedResult::Consumed
            }
        }
    }

    fn extend_unchecked(&mut self, input: &[u8])
        requires old(self).wf(), old(self).idx + input.len() <= N
        ensures final(self).wf(), final(self).view() == old(self).view() + input@,
            final(self).idx == old(self).idx + input.len(),
    {
        let new_end = self.idx + input.len();
        self.buf[self.idx..new_end].copy_from_slice(input);
        self.idx = new_end;
    }
}

}
fn main() {}
