// Abandoned: composite arms of postcard-dyn's encoder under Kani. Even for ONE concrete shape with two symbolic u8 leaves, walking
// serde_json::Value / Map (BTreeMap<String, Value>) gives no verdict in 900 s per harness (measured 2026-10-04, 16 cores).
// These would have caught seeded/C17c-dyn-struct-variant-field-order. Kept for the record.
    // ---- composite arms (bounded stand-in: concrete shapes, symbolic leaf values). Field order on the wire is the SCHEMA's
    // declaration order, whatever order the JSON object iterates in (serde_json's Map is sorted by key here).
    use postcard_schema::schema::owned::{OwnedData, OwnedNamedField, OwnedVariant};
    fn field(name: &str, ty: O) -> OwnedNamedField {
        OwnedNamedField { name: name.into(), ty }
    }
    fn obj2(k1: &str, v1: Value, k2: &str, v2: Value) -> Value {
        let mut m = serde_json::Map::new();
        m.insert(k1.into(), v1);
        m.insert(k2.into(), v2);
        Value::Object(m)
    }

    #[kani::proof]
    #[kani::unwind(12)]
    fn composite_struct_order() {
        // struct S { zeta: u8, alpha: u8 }  - declared in non-alphabetical order
        let schema = O::Struct { name: "S".into(), data: OwnedData::Struct(Box::new([field("zeta", O::U8), field("alpha", O::U8)])) };
        let (z, a): (u8, u8) = (kani::any(), kani::any());
        let j = obj2("zeta", Value::Number(Number::from(z)), "alpha", Value::Number(Number::from(a)));
        let mut out = Vec::new();
        let r = ser_named_type(&schema, &j, &mut out);
        assert!(r.is_ok(), "SPEC: dynamic encoder rejects a value of the schema's type");
        assert!(out.len() == 2 && out[0] == z && out[1] == a, "SPEC: struct fields must be written in schema (declaration) order");
        core::mem::forget(out);
        core::mem::forget(j);
        core::mem::forget(schema);
    }

    #[kani::proof]
    #[kani::unwind(12)]
    fn composite_struct_variant_order() {
        // enum E { Unit, Rect { width: u8, height: u8 } }, value E::Rect {..}: JSON {"Rect": {"width": w, "height": h}}
        let schema = O::Enum {
            name: "E".into(),
            variants: Box::new([
                OwnedVariant { name: "Unit".into(), data: OwnedData::Unit },
                OwnedVariant { name: "Rect".into(), data: OwnedData::Struct(Box::new([field("width", O::U8), field("height", O::U8)])) },
            ]),
        };
        let (w, h): (u8, u8) = (kani::any(), kani::any());
        let inner = obj2("width", Value::Number(Number::from(w)), "height", Value::Number(Number::from(h)));
        let mut m = serde_json::Map::new();
        m.insert("Rect".into(), inner);
        let j = Value::Object(m);
        let mut out = Vec::new();
        let r = ser_named_type(&schema, &j, &mut out);
        assert!(r.is_ok(), "SPEC: dynamic encoder rejects a value of the schema's type");
        assert!(out.len() == 3 && out[0] == 1 && out[1] == w && out[2] == h, "SPEC: variant index, then the variant's fields in schema (declaration) order");
        core::mem::forget(out);
        core::mem::forget(j);
        core::mem::forget(schema);
    }
}
