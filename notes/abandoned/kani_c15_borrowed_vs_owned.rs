// C15: borrowed and owned schemas are the same thing on the wire. One harness per node kind (children = pairwise distinct
// leaves): wire(borrowed) == wire(From::from(borrowed)), from_bytes::<Owned>(wire) == conversion, and the conversion
// preserves kind, names, order, nesting (structural comparison written in the harness).
// Bounded: one level per kind, depth <= 3 (DESIGN.md C15). Lives in postcard-dyn because it needs postcard + postcard-schema.
#[cfg(kani)]
mod verif_c15 {
    use postcard_schema::schema::owned::{OwnedData, OwnedDataModelType as O, OwnedNamedField, OwnedVariant};
    use postcard_schema::schema::{Data, DataModelType as D, NamedField, Variant};

    fn same_ty(t: &D, o: &O) -> bool {
        match (t, o) {
            (D::Bool, O::Bool) | (D::I8, O::I8) | (D::U8, O::U8) | (D::I16, O::I16) | (D::I32, O::I32) | (D::I64, O::I64) | (D::I128, O::I128)
            | (D::U16, O::U16) | (D::U32, O::U32) | (D::U64, O::U64) | (D::U128, O::U128) | (D::Usize, O::Usize) | (D::Isize, O::Isize)
            | (D::F32, O::F32) | (D::F64, O::F64) | (D::Char, O::Char) | (D::String, O::String) | (D::ByteArray, O::ByteArray)
            | (D::Unit, O::Unit) | (D::Schema, O::Schema) => true,
            (D::Option(a), O::Option(b)) | (D::Seq(a), O::Seq(b)) => same_ty(a, b),
            (D::Tuple(a), O::Tuple(b)) => same_tys(a, b),
            (D::Map { key: k1, val: v1 }, O::Map { key: k2, val: v2 }) => same_ty(k1, k2) && same_ty(v1, v2),
            (D::Struct { name: n1, data: d1 }, O::Struct { name: n2, data: d2 }) => *n1 == &**n2 && same_data(d1, d2),
            (D::Enum { name: n1, variants: v1 }, O::Enum { name: n2, variants: v2 }) => {
                if *n1 != &**n2 || v1.len() != v2.len() { return false; }
                let mut i = 0;
                while i < v1.len() {
                    if v1[i].name != &*v2[i].name || !same_data(&v1[i].data, &v2[i].data) { return false; }
                    i += 1;
                }
                true
            }
            _ => false,
        }
    }
    fn same_tys(a: &[&D], b: &[O]) -> bool {
        if a.len() != b.len() { return false; }
        let mut i = 0;
        while i < a.len() {
            if !same_ty(a[i], &b[i]) { return false; }
            i += 1;
        }
        true
    }
    fn same_data(a: &Data, b: &OwnedData) -> bool {
        match (a, b) {
            (Data::Unit, OwnedData::Unit) => true,
            (Data::Newtype(x), OwnedData::Newtype(y)) => same_ty(x, y),
            (Data::Tuple(x), OwnedData::Tuple(y)) => same_tys(x, y),
            (Data::Struct(x), OwnedData::Struct(y)) => {
                if x.len() != y.len() { return false; }
                let mut i = 0;
                while i < x.len() {
                    if x[i].name != &*y[i].name || !same_ty(x[i].ty, &y[i].ty) { return false; }
                    i += 1;
                }
                true
            }
            _ => false,
        }
    }

    fn one(t: &'static D) {
        let owned = O::from(t);
        assert!(same_ty(t, &owned), "SPEC: the owned conversion must preserve every kind, name, order and nesting");
        let mut b1 = [0u8; 64];
        let w1 = postcard::to_slice(t, &mut b1).unwrap().len();
        let mut b2 = [0u8; 64];
        let w2 = postcard::to_slice(&owned, &mut b2).unwrap().len();
        assert!(w1 == w2, "SPEC: borrowed and owned schema must serialise to the same number of bytes");
        let i: usize = kani::any();
        kani::assume(i < w1);
        assert!(b1[i] == b2[i], "SPEC: borrowed and owned schema must serialise to identical bytes");
        let back: O = postcard::from_bytes(&b1[..w1]).unwrap();
        assert!(back == owned, "SPEC: the bytes of the borrowed schema must deserialise to the owned conversion");
        core::mem::forget(back);
        core::mem::forget(owned);
    }

    static LEAVES_A: D = D::Tuple(&[&D::Bool, &D::I8, &D::U8, &D::I16, &D::I32, &D::I64, &D::I128, &D::U16, &D::U32, &D::U64]);
    static LEAVES_B: D = D::Tuple(&[&D::U128, &D::Usize, &D::Isize, &D::F32, &D::F64, &D::Char, &D::String, &D::ByteArray, &D::Unit, &D::Schema]);
    static OPT: D = D::Option(&D::U16);
    static SEQ: D = D::Seq(&D::I32);
    static MAP: D = D::Map { key: &D::String, val: &D::U8 };
    static S_UNIT: D = D::Struct { name: "Su", data: Data::Unit };
    static S_NEW: D = D::Struct { name: "Sn", data: Data::Newtype(&D::U64) };
    static S_TUP: D = D::Struct { name: "St", data: Data::Tuple(&[&D::U8, &D::Bool]) };
    static S_STR: D = D::Struct { name: "Ss", data: Data::Struct(&[&NamedField { name: "a", ty: &D::U8 }, &NamedField { name: "\u{e9}b", ty: &D::F32 }]) };
    static ENUM: D = D::Enum { name: "E", variants: &[
        &Variant { name: "A", data: Data::Unit },
        &Variant { name: "B", data: Data::Newtype(&D::I16) },
        &Variant { name: "C", data: Data::Tuple(&[&D::U8, &D::Char]) },
        &Variant { name: "", data: Data::Struct(&[&NamedField { name: "x", ty: &D::I64 }]) },
    ] };
    static NEST: D = D::Option(&D::Seq(&D::Tuple(&[&S_NEW, &D::Map { key: &D::U8, val: &OPT }])));

    macro_rules! h { ($n:ident, $t:expr) => { #[kani::proof] #[kani::unwind(12)] fn $n() { one(&$t); } }; }
    h!(k_leaves_a, LEAVES_A);
    h!(k_leaves_b, LEAVES_B);
    h!(k_option, OPT);
    h!(k_seq, SEQ);
    h!(k_map, MAP);
    h!(k_struct_unit, S_UNIT);
    h!(k_struct_newtype, S_NEW);
    h!(k_struct_tuple, S_TUP);
    h!(k_struct_struct, S_STR);
    h!(k_enum, ENUM);
    h!(k_nest, NEST);
}
