use vstd::prelude::*;
verus! {

pub uninterp spec fn decode<T>(s: Seq<u8>) -> Option<T>;

pub enum Outcome<T> { Consumed, OverFull, DeserError, Success(T) }

// index of first zero, or len if none
pub open spec fn fz(s: Seq<u8>) -> int
    decreases s.len()
{
    if s.len() == 0 { 0 } else if s[0] == 0 { 0 } else { 1 + fz(s.drop_first()) }
}

proof fn fz_props(s: Seq<u8>)
    ensures 0 <= fz(s) <= s.len(),
            forall|j: int| 0 <= j < fz(s) ==> s[j] != 0,
            fz(s) < s.len() ==> s[fz(s)] == 0,
    decreases s.len()
{
    if s.len() == 0 {} else if s[0] == 0 {} else {
        fz_props(s.drop_first());
        assert forall|j: int| 0 <= j < fz(s) implies s[j] != 0 by {
            if j > 0 { assert(s[j] == s.drop_first()[j - 1]); }
        }
    }
}

proof fn fz_concat(a: Seq<u8>, b: Seq<u8>)
    ensures fz(a) < a.len() ==> fz(a + b) == fz(a),
            fz(a) == a.len() ==> fz(a + b) == a.len() + fz(b),
    decreases a.len()
{
    if a.len() == 0 { assert(a + b =~= b); }
    else {
        assert((a + b)[0] == a[0]);
        assert((a + b).drop_first() =~= a.drop_first() + b);
        if a[0] == 0 {} else { fz_concat(a.drop_first(), b); }
    }
}

pub open spec fn step<T>(n: nat, view: Seq<u8>, input: Seq<u8>) -> (Outcome<T>, Seq<u8>, Seq<u8>) {
    if input.len() == 0 { (Outcome::Consumed, seq![], view) }
    else if fz(input) < input.len() {
        let z = fz(input);
        let take = input.subrange(0, z + 1);
        let release = input.subrange(z + 1, input.len() as int);
        if view.len() + take.len() <= n {
            match decode::<T>(view + take) {
                Some(t) => (Outcome::Success(t), release, seq![]),
                None => (Outcome::DeserError, release, seq![]),
            }
        } else { (Outcome::OverFull, release, seq![]) }
    } else {
        if view.len() + input.len() > n { (Outcome::OverFull, input.subrange(n - view.len(), input.len() as int), seq![]) }
        else { (Outcome::Consumed, seq![], view + input) }
    }
}

// the documented feed loop on one chunk, under the C08 hypothesis (no overflow): outcomes + final buffered bytes
pub open spec fn fits(n: nat, view: Seq<u8>, chunk: Seq<u8>) -> bool
    decreases chunk.len() via fits_dec
{
    if chunk.len() == 0 { true }
    else if fz(chunk) < chunk.len() {
        view.len() + fz(chunk) + 1 <= n && fits(n, seq![], chunk.subrange(fz(chunk) + 1, chunk.len() as int))
    } else { view.len() + chunk.len() <= n }
}

#[via_fn]
proof fn fits_dec(n: nat, view: Seq<u8>, chunk: Seq<u8>) { fz_props(chunk); }

#[via_fn]
proof fn run_dec<T>(n: nat, view: Seq<u8>, chunk: Seq<u8>) { fz_props(chunk); }

pub open spec fn run<T>(n: nat, view: Seq<u8>, chunk: Seq<u8>) -> (Seq<Outcome<T>>, Seq<u8>)
    decreases chunk.len() via run_dec::<T>
{
    if chunk.len() == 0 { (seq![], view) }
    else if fz(chunk) < chunk.len() {
        let (o, rem, v2) = step::<T>(n, view, chunk);
        let (os, vf) = run::<T>(n, v2, chunk.subrange(fz(chunk) + 1, chunk.len() as int));
        (seq![o] + os, vf)
    } else {
        let (o, rem, v2) = step::<T>(n, view, chunk);
        (seq![], v2)
    }
}

pub proof fn chunking<T>(n: nat, view: Seq<u8>, a: Seq<u8>, b: Seq<u8>)
    requires fits(n, view, a + b)
    ensures
        fits(n, view, a),
        fits(n, run::<T>(n, view, a).1, b),
        run::<T>(n, view, a + b).0 == run::<T>(n, view, a).0 + run::<T>(n, run::<T>(n, view, a).1, b).0,
        run::<T>(n, view, a + b).1 == run::<T>(n, run::<T>(n, view, a).1, b).1,
    decreases a.len()
{
    fz_props(a); fz_props(b); fz_props(a + b); fz_concat(a, b);
    if a.len() == 0 {
        assert(a + b =~= b);
    } else if fz(a) < a.len() {
        let z = fz(a);
        let a2 = a.subrange(z + 1, a.len() as int);
        assert((a + b).subrange(z + 1, (a + b).len() as int) =~= a2 + b);
        assert((a + b).subrange(0, z + 1) =~= a.subrange(0, z + 1));
        chunking::<T>(n, seq![], a2, b);
        let r1 = run::<T>(n, seq![], a2);
        assert(seq![step::<T>(n, view, a).0] + (r1.0 + run::<T>(n, r1.1, b).0) =~= (seq![step::<T>(n, view, a).0] + r1.0) + run::<T>(n, r1.1, b).0);
    } else {
        // a has no zero and is non-empty
        if b.len() == 0 {
            assert(a + b =~= a);
        } else if fz(b) < b.len() {
            let z = fz(b);
            assert((a + b).subrange(a.len() + z + 1, (a + b).len() as int) =~= b.subrange(z + 1, b.len() as int));
            assert(view + (a + b).subrange(0, a.len() + z + 1) =~= (view + a) + b.subrange(0, z + 1));
        } else {
            assert(view + (a + b) =~= (view + a) + b);
        }
    }
}

} // verus!
fn main() {}
