// Demonstration of the genuine defect fixed by /repo commit 789d17c (property C14).
// Drop into source/postcard-dyn/tests/ and run `cargo test -p postcard-dyn --test C14_raw_identifier --offline`:
// fails on the tree before 789d17c (left: "r#type"/"r#match", right: "type"/"match"), passes after it.
use postcard_schema::{schema::owned::OwnedDataModelType, Schema};
use serde::Serialize;

#[derive(Serialize, Schema)]
struct Packet {
    r#type: u8,
    len: u16,
}

#[allow(non_camel_case_types)]
#[derive(Serialize, Schema)]
enum Kw {
    r#match,
    Other,
}

#[test]
fn raw_identifier_field_name_matches_serde() {
    let v = Packet { r#type: 7, len: 300 };
    let bytes = postcard::to_stdvec(&v).unwrap();
    let schema: OwnedDataModelType = Packet::SCHEMA.into();
    let via_schema = postcard_dyn::from_slice_dyn(&schema, &bytes).unwrap();
    assert_eq!(via_schema, serde_json::to_value(&v).unwrap());
}

#[test]
fn raw_identifier_variant_name_matches_serde() {
    let v = Kw::r#match;
    let bytes = postcard::to_stdvec(&v).unwrap();
    let schema: OwnedDataModelType = Kw::SCHEMA.into();
    let via_schema = postcard_dyn::from_slice_dyn(&schema, &bytes).unwrap();
    assert_eq!(via_schema, serde_json::to_value(&v).unwrap());
    let _ = Kw::Other;
}
