use vstd::prelude::*;
use vstd::string::StringSliceAdditionalSpecFns;
verus! {

pub enum DataModelType {
    Bool,
    U8,
    Option(&'static Self),
    Tuple(&'static [&'static Self]),
    Struct {
        name: &'static str,
        data: Data,
    },
    Enum {
        name: &'static str,
        variants: &'static [&'static Variant],
    },
}
pub enum Data {
    Unit,
    Newtype(&'static DataModelType),
    Tuple(&'static [&'static DataModelType]),
    Struct(&'static [&'static NamedField]),
}
pub struct NamedField {
    pub name: &'static str,
    pub ty: &'static DataModelType,
}
pub struct Variant {
    pub name: &'static str,
    pub data: Data,
}

pub struct Fnv1a64Hasher { state: u64 }
impl Fnv1a64Hasher {
    const BASIS: u64 = 0xcbf2_9ce4_8422_2325;
    const PRIME: u64 = 0x0000_0100_0000_01b3;
}

pub open spec fn fnv_step(s: u64, b: u8) -> u64 {
    (((s ^ (b as u64)) as int * 0x0000_0100_0000_01b3int) % 0x1_0000_0000_0000_0000int) as u64
}
pub open spec fn fnv(s: u64, bytes: Seq<u8>) -> u64
    decreases bytes.len()
{
    if bytes.len() == 0 { s } else { fnv_step(fnv(s, bytes.drop_last()), bytes.last()) }
}
proof fn fnv_concat(s: u64, a: Seq<u8>, b: Seq<u8>)
    ensures fnv(s, a + b) == fnv(fnv(s, a), b)
    decreases b.len()
{
    if b.len() == 0 { assert(a + b =~= a); }
    else {
        assert((a + b).drop_last() =~= a + b.drop_last());
        fnv_concat(s, a, b.drop_last());
    }
}

pub open spec fn st_ty(t: &DataModelType) -> Seq<u8>
    decreases t, 0int, 0int
{
    match t {
        DataModelType::Bool => seq![0x11u8],
        DataModelType::U8 => seq![0x3Du8],
        DataModelType::Option(i) => seq![0x6Du8] + st_ty(i),
        DataModelType::Tuple(ts) => seq![0xA7u8] + st_tys(ts@, ts@.len() as int),
        DataModelType::Struct { name, data } => st_data_s(data),
        DataModelType::Enum { name, variants } => seq![0xE9u8] + st_vars(variants@, variants@.len() as int),
    }
}
// stream of the first n element types
pub open spec fn st_tys(ts: Seq<&'static DataModelType>, n: int) -> Seq<u8>
    decreases ts, 1int, n
{
    if 0 < n <= ts.len() { st_tys(ts, n - 1) + st_ty(ts[n - 1]) } else { seq![] }
}
pub open spec fn st_nfs(ts: Seq<&'static NamedField>, n: int) -> Seq<u8>
    decreases ts, 1int, n
{
    if 0 < n <= ts.len() { st_nfs(ts, n - 1) + st_nf(ts[n - 1]) } else { seq![] }
}
pub open spec fn st_vars(ts: Seq<&'static Variant>, n: int) -> Seq<u8>
    decreases ts, 1int, n
{
    if 0 < n <= ts.len() { st_vars(ts, n - 1) + st_var(ts[n - 1]) } else { seq![] }
}
pub open spec fn st_nf(f: &NamedField) -> Seq<u8>
    decreases f, 0int, 0int
{
    f.name.spec_bytes() + st_ty(f.ty)
}
pub open spec fn st_var(v: &Variant) -> Seq<u8>
    decreases v, 0int, 0int
{
    v.name.spec_bytes() + match v.data {
        Data::Unit => seq![0xB5u8],
        Data::Newtype(t) => seq![0xDFu8] + st_ty(t),
        Data::Tuple(ts) => seq![0xC7u8] + st_tys(ts@, ts@.len() as int),
        Data::Struct(fs) => seq![0x67u8] + st_nfs(fs@, fs@.len() as int),
    }
}
pub open spec fn st_data_s(d: &Data) -> Seq<u8>
    decreases d, 0int, 0int
{
    match d {
        Data::Unit => seq![0xBFu8],
        Data::Newtype(t) => seq![0x9Du8] + st_ty(t),
        Data::Tuple(ts) => seq![0x05u8] + st_tys(ts@, ts@.len() as int),
        Data::Struct(fs) => seq![0x7Fu8] + st_nfs(fs@, fs@.len() as int),
    }
}


// ---------- fold-shaped specs (mirror the computation) ----------
pub open spec fn h_ty(s: u64, t: &DataModelType) -> u64
    decreases t, 0int, 0int
{
    match t {
        DataModelType::Bool => fnv_step(s, 0x11u8),
        DataModelType::U8 => fnv_step(s, 0x3Du8),
        DataModelType::Option(i) => h_ty(fnv_step(s, 0x6Du8), i),
        DataModelType::Tuple(ts) => h_tys(fnv_step(s, 0xA7u8), ts@, ts@.len() as int),
        DataModelType::Struct { name, data } => h_data_s(s, data),
        DataModelType::Enum { name, variants } => h_vars(fnv_step(s, 0xE9u8), variants@, variants@.len() as int),
    }
}
pub open spec fn h_tys(s: u64, ts: Seq<&'static DataModelType>, n: int) -> u64
    decreases ts, 1int, n
{ if 0 < n <= ts.len() { h_ty(h_tys(s, ts, n - 1), ts[n - 1]) } else { s } }
pub open spec fn h_nfs(s: u64, ts: Seq<&'static NamedField>, n: int) -> u64
    decreases ts, 1int, n
{ if 0 < n <= ts.len() { h_nf(h_nfs(s, ts, n - 1), ts[n - 1]) } else { s } }
pub open spec fn h_vars(s: u64, ts: Seq<&'static Variant>, n: int) -> u64
    decreases ts, 1int, n
{ if 0 < n <= ts.len() { h_var(h_vars(s, ts, n - 1), ts[n - 1]) } else { s } }
pub open spec fn h_nf(s: u64, f: &NamedField) -> u64
    decreases f, 0int, 0int
{ h_ty(fnv(s, f.name.spec_bytes()), f.ty) }
pub open spec fn h_var(s: u64, v: &Variant) -> u64
    decreases v, 0int, 0int
{
    let s1 = fnv(s, v.name.spec_bytes());
    match v.data {
        Data::Unit => fnv_step(s1, 0xB5u8),
        Data::Newtype(t) => h_ty(fnv_step(s1, 0xDFu8), t),
        Data::Tuple(ts) => h_tys(fnv_step(s1, 0xC7u8), ts@, ts@.len() as int),
        Data::Struct(fs) => h_nfs(fnv_step(s1, 0x67u8), fs@, fs@.len() as int),
    }
}
pub open spec fn h_data_s(s: u64, d: &Data) -> u64
    decreases d, 0int, 0int
{
    match d {
        Data::Unit => fnv_step(s, 0xBFu8),
        Data::Newtype(t) => h_ty(fnv_step(s, 0x9Du8), t),
        Data::Tuple(ts) => h_tys(fnv_step(s, 0x05u8), ts@, ts@.len() as int),
        Data::Struct(fs) => h_nfs(fnv_step(s, 0x7Fu8), fs@, fs@.len() as int),
    }
}

// ---------- fold == declarative stream ----------
proof fn fnv1(s: u64, b: u8)
    ensures fnv(s, seq![b]) == fnv_step(s, b)
{
    assert(seq![b].drop_last() =~= Seq::<u8>::empty());
    assert(fnv(s, Seq::<u8>::empty()) == s);
}

proof fn eq_ty(s: u64, t: &DataModelType)
    ensures h_ty(s, t) == fnv(s, st_ty(t))
    decreases t, 0int, 0int
{
    match t {
        DataModelType::Bool => {}
        DataModelType::U8 => {}
        DataModelType::Option(i) => { eq_ty(fnv(s, seq![0x6Du8]), i); fnv_concat(s, seq![0x6Du8], st_ty(i)); }
        DataModelType::Tuple(ts) => { eq_tys(fnv(s, seq![0xA7u8]), ts@, ts@.len() as int); fnv_concat(s, seq![0xA7u8], st_tys(ts@, ts@.len() as int)); }
        DataModelType::Struct { name, data } => { eq_data_s(s, data); }
        DataModelType::Enum { name, variants } => { eq_vars(fnv(s, seq![0xE9u8]), variants@, variants@.len() as int); fnv_concat(s, seq![0xE9u8], st_vars(variants@, variants@.len() as int)); }
    }
}
proof fn eq_tys(s: u64, ts: Seq<&'static DataModelType>, n: int)
    ensures h_tys(s, ts, n) == fnv(s, st_tys(ts, n))
    decreases ts, 1int, n
{
    if 0 < n <= ts.len() {
        eq_tys(s, ts, n - 1);
        eq_ty(h_tys(s, ts, n - 1), ts[n - 1]);
        fnv_concat(s, st_tys(ts, n - 1), st_ty(ts[n - 1]));
    }
}
proof fn eq_nfs(s: u64, ts: Seq<&'static NamedField>, n: int)
    ensures h_nfs(s, ts, n) == fnv(s, st_nfs(ts, n))
    decreases ts, 1int, n
{
    if 0 < n <= ts.len() {
        eq_nfs(s, ts, n - 1);
        eq_nf(h_nfs(s, ts, n - 1), ts[n - 1]);
        fnv_concat(s, st_nfs(ts, n - 1), st_nf(ts[n - 1]));
    }
}
proof fn eq_vars(s: u64, ts: Seq<&'static Variant>, n: int)
    ensures h_vars(s, ts, n) == fnv(s, st_vars(ts, n))
    decreases ts, 1int, n
{
    if 0 < n <= ts.len() {
        eq_vars(s, ts, n - 1);
        eq_var(h_vars(s, ts, n - 1), ts[n - 1]);
        fnv_concat(s, st_vars(ts, n - 1), st_var(ts[n - 1]));
    }
}
proof fn eq_nf(s: u64, f: &NamedField)
    ensures h_nf(s, f) == fnv(s, st_nf(f))
    decreases f, 0int, 0int
{
    eq_ty(fnv(s, f.name.spec_bytes()), f.ty);
    fnv_concat(s, f.name.spec_bytes(), st_ty(f.ty));
}
proof fn eq_var(s: u64, v: &Variant)
    ensures h_var(s, v) == fnv(s, st_var(v))
    decreases v, 0int, 0int
{
    let nb = v.name.spec_bytes();
    let s1 = fnv(s, nb);
    match v.data {
        Data::Unit => { fnv_concat(s, nb, seq![0xB5u8]); }
        Data::Newtype(t) => { eq_ty(fnv(s1, seq![0xDFu8]), t); fnv_concat(s1, seq![0xDFu8], st_ty(t)); fnv_concat(s, nb, seq![0xDFu8] + st_ty(t)); }
        Data::Tuple(ts) => { eq_tys(fnv(s1, seq![0xC7u8]), ts@, ts@.len() as int); fnv_concat(s1, seq![0xC7u8], st_tys(ts@, ts@.len() as int)); fnv_concat(s, nb, seq![0xC7u8] + st_tys(ts@, ts@.len() as int)); }
        Data::Struct(fs) => { eq_nfs(fnv(s1, seq![0x67u8]), fs@, fs@.len() as int); fnv_concat(s1, seq![0x67u8], st_nfs(fs@, fs@.len() as int)); fnv_concat(s, nb, seq![0x67u8] + st_nfs(fs@, fs@.len() as int)); }
    }
}
proof fn eq_data_s(s: u64, d: &Data)
    ensures h_data_s(s, d) == fnv(s, st_data_s(d))
    decreases d, 0int, 0int
{
    match d {
        Data::Unit => {}
        Data::Newtype(t) => { eq_ty(fnv(s, seq![0x9Du8]), t); fnv_concat(s, seq![0x9Du8], st_ty(t)); }
        Data::Tuple(ts) => { eq_tys(fnv(s, seq![0x05u8]), ts@, ts@.len() as int); fnv_concat(s, seq![0x05u8], st_tys(ts@, ts@.len() as int)); }
        Data::Struct(fs) => { eq_nfs(fnv(s, seq![0x7Fu8]), fs@, fs@.len() as int); fnv_concat(s, seq![0x7Fu8], st_nfs(fs@, fs@.len() as int)); }
    }
}

// ---------- real code against the fold spec: only ensures + loop invariants ----------
    pub(crate) const fn hash_update(mut state: u64, bytes: &[u8]) -> (r: u64)
        ensures r == fnv(state, bytes@), bytes@.len() == 1 ==> r == fnv_step(state, bytes@[0])
    {
        let mut idx = 0;
        let ghost s0 = state;
        while idx < bytes.len()
            invariant idx <= bytes.len(), state == fnv(s0, bytes@.subrange(0, idx as int))
            decreases bytes.len() - idx
        {
            let ext = bytes[idx] as u64;
            state ^= ext;
            state = state.wrapping_mul(Fnv1a64Hasher::PRIME);
            idx += 1;
            proof { assert(bytes@.subrange(0, idx as int).drop_last() =~= bytes@.subrange(0, idx as int - 1)); }
        }
        proof { assert(bytes@.subrange(0, idx as int) =~= bytes@); if bytes@.len() == 1 { fnv1(s0, bytes@[0]); assert(bytes@ =~= seq![bytes@[0]]); } }
        state
    }

    #[verifier::exec_allows_no_decreases_clause]
    const fn hash_sdm_type(state: u64, sdmty: &'static DataModelType) -> (r: u64)
        ensures r == h_ty(state, sdmty)
    {
        match sdmty {
            DataModelType::Bool => hash_update(state, &[0x11]),
            DataModelType::U8 => hash_update(state, &[0x3D]),
            DataModelType::Option(t) => {
                let state = hash_update(state, &[0x6D]);
                hash_sdm_type(state, t)
            }
            DataModelType::Tuple(ts) => {
                let mut state = hash_update(state, &[0xA7]);
                let ghost s1 = state;
                let mut idx = 0;
                while idx < ts.len()
                    invariant idx <= ts.len(), state == h_tys(s1, ts@, idx as int)
                {
                    state = hash_sdm_type(state, ts[idx]);
                    idx += 1;
                }
                state
            }
            DataModelType::Struct { name, data } => hash_struct(state, name, data),
            DataModelType::Enum { name: _, variants } => {
                let mut state = hash_update(state, &[0xE9]);
                let ghost s1 = state;
                let mut idx = 0;
                while idx < variants.len()
                    invariant idx <= variants.len(), state == h_vars(s1, variants@, idx as int)
                {
                    state = hash_variant(state, variants[idx]);
                    idx += 1;
                }
                state
            }
        }
    }
    #[verifier::exec_allows_no_decreases_clause]
    const fn hash_struct(state: u64, _name: &str, data: &Data) -> (r: u64)
        ensures r == h_data_s(state, data)
    {
        match data {
            Data::Unit => hash_update(state, &[0xBF]),
            Data::Newtype(dmt) => {
                let state = hash_update(state, &[0x9D]);
                hash_sdm_type(state, dmt)
            }
            Data::Tuple(dmts) => {
                let mut state = hash_update(state, &[0x05]);
                let ghost s1 = state;
                let mut idx = 0;
                while idx < dmts.len()
                    invariant idx <= dmts.len(), state == h_tys(s1, dmts@, idx as int)
                {
                    state = hash_sdm_type(state, dmts[idx]);
                    idx += 1;
                }
                state
            }
            Data::Struct(nfs) => {
                let mut state = hash_update(state, &[0x7F]);
                let ghost s1 = state;
                let mut idx = 0;
                while idx < nfs.len()
                    invariant idx <= nfs.len(), state == h_nfs(s1, nfs@, idx as int)
                {
                    state = hash_named_field(state, nfs[idx]);
                    idx += 1;
                }
                state
            }
        }
    }
    #[verifier::exec_allows_no_decreases_clause]
    const fn hash_variant(state: u64, nt: &Variant) -> (r: u64)
        ensures r == h_var(state, nt)
    {
        let state = hash_update(state, nt.name.as_bytes());
        match nt.data {
            Data::Unit => hash_update(state, &[0xB5]),
            Data::Newtype(t) => {
                let state = hash_update(state, &[0xDF]);
                hash_sdm_type(state, t)
            }
            Data::Tuple(ts) => {
                let mut state = hash_update(state, &[0xC7]);
                let ghost s1 = state;
                let mut idx = 0;
                while idx < ts.len()
                    invariant idx <= ts.len(), state == h_tys(s1, ts@, idx as int)
                {
                    state = hash_sdm_type(state, ts[idx]);
                    idx += 1;
                }
                state
            }
            Data::Struct(fields) => {
                let mut state = hash_update(state, &[0x67]);
                let ghost s1 = state;
                let mut idx = 0;
                while idx < fields.len()
                    invariant idx <= fields.len(), state == h_nfs(s1, fields@, idx as int)
                {
                    state = hash_named_field(state, fields[idx]);
                    idx += 1;
                }
                state
            }
        }
    }
    #[verifier::exec_allows_no_decreases_clause]
    const fn hash_named_field(state: u64, nt: &NamedField) -> (r: u64)
        ensures r == h_nf(state, nt)
    {
        let state = hash_update(state, nt.name.as_bytes());
        hash_sdm_type(state, nt.ty)
    }

} // verus!
fn main() {}
