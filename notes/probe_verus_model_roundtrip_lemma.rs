use vstd::prelude::*;
verus! {

// leaf codecs: uninterpreted here, their round-trip is the per-kind contract (C01.L.varint.roundtrip_N etc.)
pub uninterp spec fn enc_u(n: nat) -> Seq<u8>;
pub uninterp spec fn dec_u(b: Seq<u8>) -> Option<(nat, Seq<u8>)>;
#[verifier::external_body]
pub proof fn ax_u(n: nat, rest: Seq<u8>) ensures dec_u(enc_u(n) + rest) == Some((n, rest)) {}

pub enum Val {
    Bool(bool),
    UInt(nat),
    Unit,
    None,
    Some(Box<Val>),
    Seq(Seq<Val>),      // length-prefixed
    Tuple(Seq<Val>),    // arity from shape (tuple, struct, tuple struct)
    Variant(nat, Box<Val>),
}
pub enum Shape {
    Bool, UInt, Unit,
    Opt(Box<Shape>),
    Seq(Box<Shape>),
    Tuple(Seq<Shape>),
    Enum(Seq<Shape>),
}

pub open spec fn typed(v: Val, s: Shape) -> bool
    decreases v
{
    match (v, s) {
        (Val::Bool(_), Shape::Bool) => true,
        (Val::UInt(_), Shape::UInt) => true,
        (Val::Unit, Shape::Unit) => true,
        (Val::None, Shape::Opt(_)) => true,
        (Val::Some(x), Shape::Opt(t)) => typed(*x, *t),
        (Val::Seq(xs), Shape::Seq(t)) => forall|i: int| 0 <= i < xs.len() ==> typed(#[trigger] xs[i], *t),
        (Val::Tuple(xs), Shape::Tuple(ts)) => xs.len() == ts.len() && forall|i: int| 0 <= i < xs.len() ==> typed(#[trigger] xs[i], ts[i]),
        (Val::Variant(k, x), Shape::Enum(ts)) => k < ts.len() && typed(*x, ts[k as int]),
        _ => false,
    }
}

pub open spec fn enc(v: Val) -> Seq<u8>
    decreases v, 0int
{
    match v {
        Val::Bool(b) => seq![if b { 1u8 } else { 0u8 }],
        Val::UInt(n) => enc_u(n),
        Val::Unit => seq![],
        Val::None => seq![0u8],
        Val::Some(x) => seq![1u8] + enc(*x),
        Val::Seq(xs) => enc_u(xs.len()) + enc_all(xs, 0),
        Val::Tuple(xs) => enc_all(xs, 0),
        Val::Variant(k, x) => enc_u(k) + enc(*x),
    }
}
pub open spec fn enc_all(xs: Seq<Val>, from: int) -> Seq<u8>
    decreases xs, 1int, xs.len() - from
{
    if 0 <= from < xs.len() { enc(xs[from]) + enc_all(xs, from + 1) } else { seq![] }
}

pub open spec fn dec(s: Shape, b: Seq<u8>) -> Option<(Val, Seq<u8>)>
    decreases s, 0int, 0int
{
    match s {
        Shape::Bool => if b.len() >= 1 && b[0] <= 1 { Some((Val::Bool(b[0] == 1), b.subrange(1, b.len() as int))) } else { None },
        Shape::UInt => match dec_u(b) { Some((n, r)) => Some((Val::UInt(n), r)), None => None },
        Shape::Unit => Some((Val::Unit, b)),
        Shape::Opt(t) => if b.len() >= 1 && b[0] == 0 { Some((Val::None, b.subrange(1, b.len() as int))) }
                         else if b.len() >= 1 && b[0] == 1 { match dec(*t, b.subrange(1, b.len() as int)) { Some((x, r)) => Some((Val::Some(Box::new(x)), r)), None => None } }
                         else { None },
        Shape::Seq(t) => match dec_u(b) { Some((n, r)) => match dec_n(*t, n, r) { Some((xs, r2)) => Some((Val::Seq(xs), r2)), None => None }, None => None },
        Shape::Tuple(ts) => match dec_tuple(ts, 0, b) { Some((xs, r)) => Some((Val::Tuple(xs), r)), None => None },
        Shape::Enum(ts) => match dec_u(b) { Some((k, r)) => if k < ts.len() { match dec(ts[k as int], r) { Some((x, r2)) => Some((Val::Variant(k, Box::new(x)), r2)), None => None } } else { None }, None => None },
    }
}
pub open spec fn dec_n(t: Shape, n: nat, b: Seq<u8>) -> Option<(Seq<Val>, Seq<u8>)>
    decreases t, 1int, n
{
    if n == 0 { Some((seq![], b)) } else {
        match dec(t, b) { Some((x, r)) => match dec_n(t, (n - 1) as nat, r) { Some((xs, r2)) => Some((seq![x] + xs, r2)), None => None }, None => None }
    }
}
pub open spec fn dec_tuple(ts: Seq<Shape>, from: int, b: Seq<u8>) -> Option<(Seq<Val>, Seq<u8>)>
    decreases ts, 1int, ts.len() - from
{
    if 0 <= from < ts.len() {
        match dec(ts[from], b) { Some((x, r)) => match dec_tuple(ts, from + 1, r) { Some((xs, r2)) => Some((seq![x] + xs, r2)), None => None }, None => None }
    } else { Some((seq![], b)) }
}

pub proof fn roundtrip(v: Val, s: Shape, rest: Seq<u8>)
    requires typed(v, s)
    ensures dec(s, enc(v) + rest) == Some((v, rest))
    decreases v, 0int
{
    match (v, s) {
        (Val::Bool(b), Shape::Bool) => { assert((enc(v) + rest).subrange(1, (enc(v) + rest).len() as int) =~= rest); }
        (Val::UInt(n), Shape::UInt) => { ax_u(n, rest); }
        (Val::Unit, Shape::Unit) => { assert(enc(v) + rest =~= rest); }
        (Val::None, Shape::Opt(_)) => { assert((enc(v) + rest).subrange(1, (enc(v) + rest).len() as int) =~= rest); }
        (Val::Some(x), Shape::Opt(t)) => {
            roundtrip(*x, *t, rest);
            assert((enc(v) + rest).subrange(1, (enc(v) + rest).len() as int) =~= enc(*x) + rest);
        }
        (Val::Seq(xs), Shape::Seq(t)) => {
            ax_u(xs.len(), enc_all(xs, 0) + rest);
            assert(enc(v) + rest =~= enc_u(xs.len()) + (enc_all(xs, 0) + rest));
            roundtrip_seq(xs, 0, *t, rest);
            assert(xs.subrange(0, xs.len() as int) =~= xs);
        }
        (Val::Tuple(xs), Shape::Tuple(ts)) => {
            roundtrip_tuple(xs, ts, 0, rest);
            assert(xs.subrange(0, xs.len() as int) =~= xs);
        }
        (Val::Variant(k, x), Shape::Enum(ts)) => {
            ax_u(k, enc(*x) + rest);
            assert(enc(v) + rest =~= enc_u(k) + (enc(*x) + rest));
            roundtrip(*x, ts[k as int], rest);
        }
        _ => {}
    }
}
proof fn roundtrip_seq(xs: Seq<Val>, from: int, t: Shape, rest: Seq<u8>)
    requires 0 <= from <= xs.len(), forall|i: int| 0 <= i < xs.len() ==> typed(#[trigger] xs[i], t)
    ensures dec_n(t, (xs.len() - from) as nat, enc_all(xs, from) + rest) == Some((xs.subrange(from, xs.len() as int), rest))
    decreases xs, 1int, xs.len() - from
{
    if from < xs.len() {
        roundtrip(xs[from], t, enc_all(xs, from + 1) + rest);
        assert(enc_all(xs, from) + rest =~= enc(xs[from]) + (enc_all(xs, from + 1) + rest));
        roundtrip_seq(xs, from + 1, t, rest);
        assert(seq![xs[from]] + xs.subrange(from + 1, xs.len() as int) =~= xs.subrange(from, xs.len() as int));
    } else {
        assert(enc_all(xs, from) + rest =~= rest);
        assert(xs.subrange(from, xs.len() as int) =~= Seq::<Val>::empty());
    }
}
proof fn roundtrip_tuple(xs: Seq<Val>, ts: Seq<Shape>, from: int, rest: Seq<u8>)
    requires 0 <= from <= xs.len(), xs.len() == ts.len(), forall|i: int| 0 <= i < xs.len() ==> typed(#[trigger] xs[i], ts[i])
    ensures dec_tuple(ts, from, enc_all(xs, from) + rest) == Some((xs.subrange(from, xs.len() as int), rest))
    decreases xs, 1int, xs.len() - from
{
    if from < xs.len() {
        roundtrip(xs[from], ts[from], enc_all(xs, from + 1) + rest);
        assert(enc_all(xs, from) + rest =~= enc(xs[from]) + (enc_all(xs, from + 1) + rest));
        roundtrip_tuple(xs, ts, from + 1, rest);
        assert(seq![xs[from]] + xs.subrange(from + 1, xs.len() as int) =~= xs.subrange(from, xs.len() as int));
    } else {
        assert(enc_all(xs, from) + rest =~= rest);
        assert(xs.subrange(from, xs.len() as int) =~= Seq::<Val>::empty());
    }
}

} // verus!
fn main() {}
