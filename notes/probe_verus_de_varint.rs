use vstd::prelude::*;
use core::marker::PhantomData;
verus! {
global size_of usize == 8;

pub enum Error { DeserializeUnexpectedEnd, DeserializeBadVarint }
pub type Result<T> = ::core::result::Result<T, Error>;

pub trait Flavor<'de>: 'de {
    spec fn rem(&self) -> Seq<u8>;
    fn pop(&mut self) -> (r: Result<u8>)
        ensures
            old(self).rem().len() == 0 ==> r == Err::<u8, Error>(Error::DeserializeUnexpectedEnd) && final(self).rem() == old(self).rem(),
            old(self).rem().len() > 0 ==> r == Ok::<u8, Error>(old(self).rem()[0]) && final(self).rem() == old(self).rem().drop_first();
}

pub struct Deserializer<'de, F: Flavor<'de>> {
    flavor: F,
    _plt: PhantomData<&'de ()>,
}

pub const fn varint_max<T: Sized>() -> (r: usize)
    requires vstd::layout::size_of::<T>() <= 1024
    ensures r == (vstd::layout::size_of::<T>() * 8 + 6) / 7
{
    let bits = core::mem::size_of::<T>() * 8;
    let roundup_bits = bits + (7 - 1);
    roundup_bits / 7
}
pub const fn max_of_last_byte<T: Sized>() -> (r: u8)
    requires vstd::layout::size_of::<T>() <= 1024
{
    let max_bits = core::mem::size_of::<T>() * 8;
    let extra_bits = max_bits % 7;
    (1 << extra_bits) - 1
}

impl<'de, F: Flavor<'de>> Deserializer<'de, F> {
    fn try_take_varint_u16(&mut self) -> Result<u16> {
        let mut out = 0;
        for i in 0..varint_max::<u16>() {
            let val = self.flavor.pop()?;
            let carry = (val & 0x7F) as u16;
            out |= carry << (7 * i);

            if (val & 0x80) == 0 {
                if i == varint_max::<u16>() - 1 && val > max_of_last_byte::<u16>() {
                    return Err(Error::DeserializeBadVarint);
                } else {
                    return Ok(out);
                }
            }
        }
        Err(Error::DeserializeBadVarint)
    }
}
}
fn main() {}
