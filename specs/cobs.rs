// ---- COBS specification (block definition) and the abstract encoder machine; lemma: machine run == cobs blocks ----
// index of first zero, or len if none
pub open spec fn fz(s: Seq<u8>) -> int
    decreases s.len()
{
    if s.len() == 0 { 0 } else if s[0] == 0 { 0 } else { 1 + fz(s.drop_first()) }
}
pub proof fn fz_props(s: Seq<u8>)
    ensures 0 <= fz(s) <= s.len(),
            forall|j: int| 0 <= j < fz(s) ==> s[j] != 0,
            fz(s) < s.len() ==> s[fz(s)] == 0,
    decreases s.len()
{
    if s.len() == 0 {} else if s[0] == 0 {} else {
        fz_props(s.drop_first());
        assert forall|j: int| 0 <= j < fz(s) implies s[j] != 0 by {
            if j > 0 { assert(s[j] == s.drop_first()[j - 1]); }
        }
    }
}
pub proof fn fz_concat(a: Seq<u8>, b: Seq<u8>)
    ensures fz(a) < a.len() ==> fz(a + b) == fz(a),
            fz(a) == a.len() ==> fz(a + b) == a.len() + fz(b),
    decreases a.len()
{
    if a.len() == 0 { assert(a + b =~= b); }
    else {
        assert((a + b)[0] == a[0]);
        assert((a + b).drop_first() =~= a.drop_first() + b);
        if a[0] == 0 {} else { fz_concat(a.drop_first(), b); }
    }
}
pub open spec fn nonzero(s: Seq<u8>) -> bool { forall|j: int| 0 <= j < s.len() ==> s[j] != 0 }
pub proof fn fz_nonzero(s: Seq<u8>) requires nonzero(s) ensures fz(s) == s.len()
{ fz_props(s); }

// ---- declarative COBS (block definition, cobs-crate flavour) ----
#[via_fn]
pub proof fn cobs_dec(msg: Seq<u8>) { fz_props(msg); }
pub open spec fn cobs(msg: Seq<u8>) -> Seq<u8>
    decreases msg.len() via cobs_dec
{
    let k = fz(msg);
    if k >= 254 { seq![0xFFu8] + msg.subrange(0, 254) + cobs(msg.subrange(254, msg.len() as int)) }
    else if k == msg.len() { seq![(k + 1) as u8] + msg }
    else { seq![(k + 1) as u8] + msg.subrange(0, k) + cobs(msg.subrange(k + 1, msg.len() as int)) }
}

// ---- the abstract machine = the step contract proved by Kani on Cobs<B>::try_push / finalize ----
pub struct M { pub out: Seq<u8>, pub ci: int, pub n: int }
pub open spec fn inv(m: M) -> bool { 0 <= m.ci < m.out.len() && 1 <= m.n <= 254 && m.ci + m.n == m.out.len() }
pub open spec fn init() -> M { M { out: seq![0u8], ci: 0, n: 1 } }
pub open spec fn push(m: M, d: u8) -> M {
    if d == 0 { M { out: m.out.update(m.ci, m.n as u8).push(0u8), ci: m.out.len() as int, n: 1 } }
    else if m.n < 254 { M { out: m.out.push(d), ci: m.ci, n: m.n + 1 } }
    else { M { out: m.out.update(m.ci, 0xFFu8).push(d).push(0u8), ci: m.out.len() as int + 1, n: 1 } }
}
pub open spec fn finalize(m: M) -> Seq<u8> { m.out.update(m.ci, m.n as u8).push(0u8) }
pub open spec fn run(m: M, msg: Seq<u8>) -> M
    decreases msg.len()
{ if msg.len() == 0 { m } else { run(push(m, msg[0]), msg.drop_first()) } }

pub open spec fn committed(m: M) -> Seq<u8> { m.out.subrange(0, m.ci) }
pub open spec fn pending(m: M) -> Seq<u8> { m.out.subrange(m.ci + 1, m.out.len() as int) }

pub proof fn main_lemma(m: M, rest: Seq<u8>)
    requires inv(m), nonzero(pending(m))
    ensures finalize(run(m, rest)) == committed(m) + cobs(pending(m) + rest) + seq![0u8]
    decreases rest.len()
{
    let p = pending(m);
    let c = committed(m);
    assert(p.len() == m.n - 1);
    if rest.len() == 0 {
        assert(p + rest =~= p);
        fz_nonzero(p);
        assert(finalize(m) =~= c + (seq![(m.n) as u8] + p) + seq![0u8]);
    } else {
        let d = rest[0];
        let r = rest.drop_first();
        let m2 = push(m, d);
        fz_nonzero(p);
        fz_concat(p, rest);
        fz_props(rest);
        if d == 0 {
            assert(fz(rest) == 0);
            assert(committed(m2) =~= c + (seq![m.n as u8] + p));
            assert(pending(m2) =~= Seq::<u8>::empty());
            assert(inv(m2));
            main_lemma(m2, r);
            assert(pending(m2) + r =~= r);
            let msg = p + rest;
            assert(fz(msg) == p.len());
            assert(msg.subrange(0, p.len() as int) =~= p);
            assert(msg.subrange(p.len() as int + 1, msg.len() as int) =~= r);
            assert(c + (seq![m.n as u8] + p) + cobs(r) + seq![0u8] =~= c + (seq![m.n as u8] + p + cobs(r)) + seq![0u8]);
        } else if m.n < 254 {
            assert(committed(m2) =~= c);
            assert(pending(m2) =~= p.push(d));
            assert(inv(m2));
            assert(nonzero(pending(m2)));
            main_lemma(m2, r);
            assert(p.push(d) + r =~= p + rest);
        } else {
            // block full: p has 253 bytes, p+[d] is 254 non-zero bytes
            let blk = p.push(d);
            assert(committed(m2) =~= c + (seq![0xFFu8] + blk));
            assert(pending(m2) =~= Seq::<u8>::empty());
            assert(inv(m2));
            main_lemma(m2, r);
            assert(pending(m2) + r =~= r);
            let msg = p + rest;
            assert(msg =~= blk + r);
            assert(nonzero(blk));
            fz_nonzero(blk);
            fz_concat(blk, r);
            fz_props(r);
            assert(fz(msg) >= 254);
            assert(msg.subrange(0, 254) =~= blk);
            assert(msg.subrange(254, msg.len() as int) =~= r);
            assert(c + (seq![0xFFu8] + blk) + cobs(r) + seq![0u8] =~= c + (seq![0xFFu8] + blk + cobs(r)) + seq![0u8]);
        }
    }
}

pub proof fn cobs_flavor_correct(msg: Seq<u8>)
    ensures finalize(run(init(), msg)) == cobs(msg) + seq![0u8]
{
    let m = init();
    assert(pending(m) =~= Seq::<u8>::empty());
    assert(committed(m) =~= Seq::<u8>::empty());
    main_lemma(m, msg);
    assert(pending(m) + msg =~= msg);
    assert(committed(m) + cobs(msg) + seq![0u8] =~= cobs(msg) + seq![0u8]);
}

pub proof fn cobs_no_zero(msg: Seq<u8>)
    ensures nonzero(cobs(msg)), cobs(msg).len() >= 1
    decreases msg.len()
{
    fz_props(msg);
    let k = fz(msg);
    if k >= 254 { cobs_no_zero(msg.subrange(254, msg.len() as int)); }
    else if k == msg.len() {}
    else { cobs_no_zero(msg.subrange(k + 1, msg.len() as int)); }
}


// length: |cobs(msg)| <= |msg| + |msg|/254 + 1   (the property's n + floor(n/254) + 2 counts the sentinel)
pub proof fn cobs_len_bound(msg: Seq<u8>)
    ensures cobs(msg).len() <= msg.len() + msg.len() / 254 + 1
    decreases msg.len()
{
    fz_props(msg);
    let k = fz(msg);
    if k >= 254 {
        let r = msg.subrange(254, msg.len() as int);
        cobs_len_bound(r);
        assert(r.len() == msg.len() - 254);
        assert((msg.len() - 254) / 254 == msg.len() / 254 - 1);
    } else if k == msg.len() {
    } else {
        let r = msg.subrange(k + 1, msg.len() as int);
        cobs_len_bound(r);
        assert(r.len() / 254 <= msg.len() / 254);
    }
}
// ... with equality for zero-free messages
pub proof fn cobs_len_exact_nonzero(msg: Seq<u8>)
    requires nonzero(msg)
    ensures cobs(msg).len() == msg.len() + msg.len() / 254 + 1
    decreases msg.len()
{
    fz_nonzero(msg);
    if msg.len() >= 254 {
        let r = msg.subrange(254, msg.len() as int);
        assert(nonzero(r));
        cobs_len_exact_nonzero(r);
        assert((msg.len() - 254) / 254 == msg.len() / 254 - 1);
    }
}

// standard COBS decoding of a zero-free code stream
pub open spec fn uncobs(enc: Seq<u8>) -> Seq<u8>
    decreases enc.len()
{
    if enc.len() == 0 { seq![] }
    else {
        let code = enc[0] as int;
        if code == 0 || code > enc.len() { seq![] }     // ill-formed (never produced by cobs)
        else {
            let blk = enc.subrange(1, code);
            let rest = enc.subrange(code, enc.len() as int);
            if code == 0xFF || rest.len() == 0 { blk + uncobs(rest) } else { blk + seq![0u8] + uncobs(rest) }
        }
    }
}
// decode(encode(m)) == m, for every message of every length
pub proof fn cobs_roundtrip(msg: Seq<u8>)
    ensures uncobs(cobs(msg)) == msg
    decreases msg.len()
{
    fz_props(msg);
    let k = fz(msg);
    let e = cobs(msg);
    if k >= 254 {
        let r = msg.subrange(254, msg.len() as int);
        cobs_roundtrip(r);
        cobs_no_zero(r);
        let head = seq![0xFFu8] + msg.subrange(0, 254);
        assert(e =~= head + cobs(r));
        assert(e[0] == 0xFF);
        assert(e.subrange(1, 255) =~= msg.subrange(0, 254));
        assert(e.subrange(255, e.len() as int) =~= cobs(r));
        assert(msg =~= msg.subrange(0, 254) + r);
    } else if k == msg.len() {
        assert(e =~= seq![(k + 1) as u8] + msg);
        assert(e.subrange(1, k + 1) =~= msg);
        assert(e.subrange(k + 1, e.len() as int) =~= Seq::<u8>::empty());
        assert(msg + uncobs(Seq::<u8>::empty()) =~= msg);
    } else {
        let r = msg.subrange(k + 1, msg.len() as int);
        cobs_roundtrip(r);
        cobs_no_zero(r);
        let head = seq![(k + 1) as u8] + msg.subrange(0, k);
        assert(e =~= head + cobs(r));
        assert(e[0] == (k + 1) as u8);
        assert(e.subrange(1, k + 1) =~= msg.subrange(0, k));
        assert(e.subrange(k + 1, e.len() as int) =~= cobs(r));
        assert(msg =~= msg.subrange(0, k) + seq![0u8] + r);
    }
}
// the frame contains exactly one zero byte - its last
pub proof fn frame_single_zero(msg: Seq<u8>)
    ensures ({ let f = cobs(msg) + seq![0u8]; f.last() == 0 && nonzero(f.drop_last()) })
{
    cobs_no_zero(msg);
    assert((cobs(msg) + seq![0u8]).drop_last() =~= cobs(msg));
}

// run distributes over appending one byte
pub proof fn lemma_run_snoc(m: M, s: Seq<u8>, d: u8)
    ensures run(m, s.push(d)) == push(run(m, s), d)
    decreases s.len()
{
    if s.len() == 0 {
        let one = s.push(d);
        assert(one.len() == 1 && one[0] == d);
        assert(one.drop_first() =~= Seq::<u8>::empty());
        assert(run(push(m, d), one.drop_first()) == push(m, d));
        assert(run(m, one) == run(push(m, one[0]), one.drop_first()));
        assert(run(m, s) == m);
    } else {
        let sp = s.push(d);
        assert(sp.len() > 0);
        assert(run(m, sp) == run(push(m, sp[0]), sp.drop_first()));
        assert(run(m, s) == run(push(m, s[0]), s.drop_first()));
        assert(s.push(d).drop_first() =~= s.drop_first().push(d));
        assert(s.push(d)[0] == s[0]);
        lemma_run_snoc(push(m, s[0]), s.drop_first(), d);
    }
}
