// ---- abstract wire model of the serde data model as postcard lays it out (spec/src/wire-format.md) ----
// Leaves (all scalar kinds: bool, i8..i128, u8..u128, f32, f64, char, str, bytes) are abstract: `Leaf(kind, payload)` with an
// uninterpreted codec per kind. The two hypotheses below are exactly what the per-kind obligations discharge on the real code:
//   hyp_leaf_roundtrip  <=  C01.K.kind.*  (take_from_bytes(to_slice(v) ++ tail) == Ok(v, tail) for every value of the kind)
//   hyp_leaf_size       <=  C12.K.value.* / C12.V.varint.len_* (|encoding| <= declared per-kind maximum)
// Length prefixes (seq / map / str counts: varint(usize), 64-bit host) and variant indices (varint(u32)) are NOT abstract: they are
// the LEB128 encoder `enc` of specs/varint.rs - what the real writers are proved to emit (C02.V.varint.*) - and the bit-form decoders
// dec_u64 / dec_u32 - what the real readers are proved to compute (C03.V.de.take_*); their round trip is the proved lemma
// C01.L.varint.roundtrip_* and their size bound the proved monotonicity of |enc|.
pub uninterp spec fn enc_leaf(kind: nat, x: int) -> Seq<u8>;
pub uninterp spec fn dec_leaf(kind: nat, b: Seq<u8>) -> Option<(int, Seq<u8>)>;
pub uninterp spec fn leaf_ok(kind: nat, x: int) -> bool;       // x is a value of that kind
pub uninterp spec fn leaf_max(kind: nat) -> nat;              // POSTCARD_MAX_SIZE of the kind
pub open spec fn enc_len(n: nat) -> Seq<u8> { enc(n) }        // count prefix and variant index: canonical LEB128
pub open spec fn dec_len(b: Seq<u8>) -> Option<(nat, Seq<u8>)> {      // count prefix: the varint(usize) reader (64-bit host)
    match dec_u64(b) { DecRes::Ok(v, used) => Some((v as nat, b.subrange(used, b.len() as int))), _ => None }
}
pub open spec fn dec_idx(b: Seq<u8>) -> Option<(nat, Seq<u8>)> {      // variant index: the varint(u32) reader
    match dec_u32(b) { DecRes::Ok(v, used) => Some((v as nat, b.subrange(used, b.len() as int))), _ => None }
}
pub open spec fn len_max(n: nat) -> nat { enc(n).len() }      // bytes needed for any prefix value <= n (monotone: lemma_len_size)

#[verifier::external_body]
pub proof fn hyp_leaf_roundtrip(kind: nat, x: int, rest: Seq<u8>)
    requires leaf_ok(kind, x) ensures dec_leaf(kind, enc_leaf(kind, x) + rest) == Some((x, rest)) {}
#[verifier::external_body]
pub proof fn hyp_leaf_size(kind: nat, x: int) requires leaf_ok(kind, x) ensures enc_leaf(kind, x).len() <= leaf_max(kind) {}

// formerly hypotheses, now proved from the varint round-trip lemmas
pub proof fn lemma_len_roundtrip(n: nat, rest: Seq<u8>)
    requires n <= u64::MAX
    ensures dec_len(enc_len(n) + rest) == Some((n, rest))
{
    lemma_varint_roundtrip_u64(n as u64, rest);
    let b = enc(n) + rest;
    assert(b.subrange(enc(n).len() as int, b.len() as int) =~= rest);
}
pub proof fn lemma_idx_roundtrip(n: nat, rest: Seq<u8>)
    requires n <= u32::MAX
    ensures dec_idx(enc_len(n) + rest) == Some((n, rest))
{
    lemma_varint_roundtrip_u32(n as u32, rest);
    let b = enc(n) + rest;
    assert(b.subrange(enc(n).len() as int, b.len() as int) =~= rest);
}
pub proof fn lemma_len_size(k: nat, n: nat)
    requires k <= n
    ensures enc_len(k).len() <= len_max(n)
    decreases n
{
    if k >= 128 { lemma_len_size(k / 128, n / 128); } else { lemma_enc_len_pos(n); }
}

pub enum Val {
    Leaf(nat, int),                 // any scalar kind
    Unit,                           // unit, unit struct: no bytes
    None,
    Some(Box<Val>),
    Seq(Seq<Val>),                  // seq: count prefix, then the elements
                                    // map: count prefix, then key, value, key, value ... - on the wire exactly Seq(Tuple[key, value])
    Tuple(Seq<Val>),                // tuple, tuple struct, struct, newtype struct: arity and names are NOT on the wire
    Variant(nat, Box<Val>),         // any enum variant: index prefix, then the payload (Unit / newtype / Tuple)
}
pub enum Shape {
    Leaf(nat), Unit,
    Opt(Box<Shape>),
    Seq(Box<Shape>),
    Tuple(Seq<Shape>),
    Enum(Seq<Shape>),
}

pub open spec fn typed(v: Val, s: Shape) -> bool
    decreases v
{
    match (v, s) {
        (Val::Leaf(k, x), Shape::Leaf(k2)) => k == k2 && leaf_ok(k, x),
        (Val::Unit, Shape::Unit) => true,
        (Val::None, Shape::Opt(_)) => true,
        (Val::Some(x), Shape::Opt(t)) => typed(*x, *t),
        (Val::Seq(xs), Shape::Seq(t)) => xs.len() <= usize::MAX && forall|i: int| 0 <= i < xs.len() ==> typed(#[trigger] xs[i], *t),   // a count is a usize
        (Val::Tuple(xs), Shape::Tuple(ts)) => xs.len() == ts.len() && forall|i: int| 0 <= i < xs.len() ==> typed(#[trigger] xs[i], ts[i]),
        (Val::Variant(k, x), Shape::Enum(ts)) => k < ts.len() && k <= u32::MAX && typed(*x, ts[k as int]),           // a variant index is a u32
        _ => false,
    }
}

// the wire format (spec/src/wire-format.md, "Serde Data Model Types")
pub open spec fn enc_val(v: Val) -> Seq<u8>
    decreases v, 0int
{
    match v {
        Val::Leaf(k, x) => enc_leaf(k, x),
        Val::Unit => seq![],
        Val::None => seq![0u8],
        Val::Some(x) => seq![1u8] + enc_val(*x),
        Val::Seq(xs) => enc_len(xs.len()) + enc_all(xs, 0),
        Val::Tuple(xs) => enc_all(xs, 0),
        Val::Variant(k, x) => enc_len(k) + enc_val(*x),
    }
}
pub open spec fn enc_all(xs: Seq<Val>, from: int) -> Seq<u8>
    decreases xs, 1int, xs.len() - from
{
    if 0 <= from < xs.len() { enc_val(xs[from]) + enc_all(xs, from + 1) } else { seq![] }
}

pub open spec fn dec_val(s: Shape, b: Seq<u8>) -> Option<(Val, Seq<u8>)>
    decreases s, 0int, 0int
{
    match s {
        Shape::Leaf(k) => match dec_leaf(k, b) { Some((x, r)) => Some((Val::Leaf(k, x), r)), None => None },
        Shape::Unit => Some((Val::Unit, b)),
        Shape::Opt(t) => if b.len() >= 1 && b[0] == 0 { Some((Val::None, b.subrange(1, b.len() as int))) }
                         else if b.len() >= 1 && b[0] == 1 { match dec_val(*t, b.subrange(1, b.len() as int)) { Some((x, r)) => Some((Val::Some(Box::new(x)), r)), None => None } }
                         else { None },
        Shape::Seq(t) => match dec_len(b) { Some((n, r)) => match dec_n(*t, n, r) { Some((xs, r2)) => Some((Val::Seq(xs), r2)), None => None }, None => None },
        Shape::Tuple(ts) => match dec_tuple(ts, 0, b) { Some((xs, r)) => Some((Val::Tuple(xs), r)), None => None },
        Shape::Enum(ts) => match dec_idx(b) { Some((k, r)) => if k < ts.len() { match dec_val(ts[k as int], r) { Some((x, r2)) => Some((Val::Variant(k, Box::new(x)), r2)), None => None } } else { None }, None => None },
    }
}
pub open spec fn dec_n(t: Shape, n: nat, b: Seq<u8>) -> Option<(Seq<Val>, Seq<u8>)>
    decreases t, 1int, n
{
    if n == 0 { Some((seq![], b)) } else {
        match dec_val(t, b) { Some((x, r)) => match dec_n(t, (n - 1) as nat, r) { Some((xs, r2)) => Some((seq![x] + xs, r2)), None => None }, None => None }
    }
}
pub open spec fn dec_tuple(ts: Seq<Shape>, from: int, b: Seq<u8>) -> Option<(Seq<Val>, Seq<u8>)>
    decreases ts, 1int, ts.len() - from
{
    if 0 <= from < ts.len() {
        match dec_val(ts[from], b) { Some((x, r)) => match dec_tuple(ts, from + 1, r) { Some((xs, r2)) => Some((seq![x] + xs, r2)), None => None }, None => None }
    } else { Some((seq![], b)) }
}

// C01.L.model.roundtrip: decoding the encoding of ANY well-typed value (any nesting depth), followed by any bytes, yields the
// value and exactly those bytes
pub proof fn lemma_model_roundtrip(v: Val, s: Shape, rest: Seq<u8>)
    requires typed(v, s)
    ensures dec_val(s, enc_val(v) + rest) == Some((v, rest))
    decreases v, 0int
{
    match (v, s) {
        (Val::Leaf(k, x), Shape::Leaf(_)) => { hyp_leaf_roundtrip(k, x, rest); }
        (Val::Unit, Shape::Unit) => { assert(enc_val(v) + rest =~= rest); }
        (Val::None, Shape::Opt(_)) => { assert((enc_val(v) + rest).subrange(1, (enc_val(v) + rest).len() as int) =~= rest); }
        (Val::Some(x), Shape::Opt(t)) => {
            lemma_model_roundtrip(*x, *t, rest);
            assert((enc_val(v) + rest).subrange(1, (enc_val(v) + rest).len() as int) =~= enc_val(*x) + rest);
        }
        (Val::Seq(xs), Shape::Seq(t)) => {
            lemma_len_roundtrip(xs.len(), enc_all(xs, 0) + rest);
            assert(enc_val(v) + rest =~= enc_len(xs.len()) + (enc_all(xs, 0) + rest));
            lemma_rt_seq(xs, 0, *t, rest);
            assert(xs.subrange(0, xs.len() as int) =~= xs);
        }
        (Val::Tuple(xs), Shape::Tuple(ts)) => {
            lemma_rt_tuple(xs, ts, 0, rest);
            assert(xs.subrange(0, xs.len() as int) =~= xs);
        }
        (Val::Variant(k, x), Shape::Enum(ts)) => {
            lemma_idx_roundtrip(k, enc_val(*x) + rest);
            assert(enc_val(v) + rest =~= enc_len(k) + (enc_val(*x) + rest));
            lemma_model_roundtrip(*x, ts[k as int], rest);
        }
        _ => {}
    }
}
proof fn lemma_rt_seq(xs: Seq<Val>, from: int, t: Shape, rest: Seq<u8>)
    requires 0 <= from <= xs.len(), forall|i: int| 0 <= i < xs.len() ==> typed(#[trigger] xs[i], t)
    ensures dec_n(t, (xs.len() - from) as nat, enc_all(xs, from) + rest) == Some((xs.subrange(from, xs.len() as int), rest))
    decreases xs, 1int, xs.len() - from
{
    if from < xs.len() {
        lemma_model_roundtrip(xs[from], t, enc_all(xs, from + 1) + rest);
        assert(enc_all(xs, from) + rest =~= enc_val(xs[from]) + (enc_all(xs, from + 1) + rest));
        lemma_rt_seq(xs, from + 1, t, rest);
        assert(seq![xs[from]] + xs.subrange(from + 1, xs.len() as int) =~= xs.subrange(from, xs.len() as int));
    } else {
        assert(enc_all(xs, from) + rest =~= rest);
        assert(xs.subrange(from, xs.len() as int) =~= Seq::<Val>::empty());
    }
}
proof fn lemma_rt_tuple(xs: Seq<Val>, ts: Seq<Shape>, from: int, rest: Seq<u8>)
    requires 0 <= from <= xs.len(), xs.len() == ts.len(), forall|i: int| 0 <= i < xs.len() ==> typed(#[trigger] xs[i], ts[i])
    ensures dec_tuple(ts, from, enc_all(xs, from) + rest) == Some((xs.subrange(from, xs.len() as int), rest))
    decreases xs, 1int, xs.len() - from
{
    if from < xs.len() {
        lemma_model_roundtrip(xs[from], ts[from], enc_all(xs, from + 1) + rest);
        assert(enc_all(xs, from) + rest =~= enc_val(xs[from]) + (enc_all(xs, from + 1) + rest));
        lemma_rt_tuple(xs, ts, from + 1, rest);
        assert(seq![xs[from]] + xs.subrange(from + 1, xs.len() as int) =~= xs.subrange(from, xs.len() as int));
    } else {
        assert(enc_all(xs, from) + rest =~= rest);
        assert(xs.subrange(from, xs.len() as int) =~= Seq::<Val>::empty());
    }
}

// ---- C12.L.model.size_bound: the MaxSize formulas bound the encoding of every value of a fixed-size shape (no seq / map) ----
pub open spec fn max_size(s: Shape) -> nat
    decreases s, 0int, 0int
{
    match s {
        Shape::Leaf(k) => leaf_max(k),
        Shape::Unit => 0,
        Shape::Opt(t) => 1 + max_size(*t),                                    // impl MaxSize for Option<T>
        Shape::Tuple(ts) => sum_sizes(ts, 0),                                 // tuples, arrays, derived structs: sum of the fields
        Shape::Enum(ts) => len_max(ts.len()) + max_sizes(ts, 0),              // derive: discriminant size + max over the variants
        _ => 0,                                                               // seq / map have no MaxSize
    }
}
pub open spec fn sum_sizes(ts: Seq<Shape>, from: int) -> nat
    decreases ts, 1int, ts.len() - from
{ if 0 <= from < ts.len() { max_size(ts[from]) + sum_sizes(ts, from + 1) } else { 0 } }
pub open spec fn max_sizes(ts: Seq<Shape>, from: int) -> nat
    decreases ts, 1int, ts.len() - from
{ if 0 <= from < ts.len() { let a = max_size(ts[from]); let b = max_sizes(ts, from + 1); if a > b { a } else { b } } else { 0 } }
pub open spec fn fixed(s: Shape) -> bool
    decreases s
{
    match s {
        Shape::Leaf(_) => true, Shape::Unit => true,
        Shape::Opt(t) => fixed(*t),
        Shape::Tuple(ts) => forall|i: int| 0 <= i < ts.len() ==> fixed(#[trigger] ts[i]),
        Shape::Enum(ts) => forall|i: int| 0 <= i < ts.len() ==> fixed(#[trigger] ts[i]),
        _ => false,
    }
}
proof fn lemma_max_sizes_ge(ts: Seq<Shape>, from: int, k: int)
    requires 0 <= from <= k < ts.len()
    ensures max_size(ts[k]) <= max_sizes(ts, from)
    decreases ts.len() - from
{
    if from < k { lemma_max_sizes_ge(ts, from + 1, k); }
}
pub proof fn lemma_model_size_bound(v: Val, s: Shape)
    requires typed(v, s), fixed(s)
    ensures enc_val(v).len() <= max_size(s)
    decreases v, 0int
{
    match (v, s) {
        (Val::Leaf(k, x), Shape::Leaf(_)) => { hyp_leaf_size(k, x); }
        (Val::Some(x), Shape::Opt(t)) => { lemma_model_size_bound(*x, *t); }
        (Val::Tuple(xs), Shape::Tuple(ts)) => { lemma_size_tuple(xs, ts, 0); }
        (Val::Variant(k, x), Shape::Enum(ts)) => {
            lemma_model_size_bound(*x, ts[k as int]);
            lemma_max_sizes_ge(ts, 0, k as int);
            lemma_len_size(k, ts.len());
        }
        _ => {}
    }
}
proof fn lemma_size_tuple(xs: Seq<Val>, ts: Seq<Shape>, from: int)
    requires 0 <= from <= xs.len(), xs.len() == ts.len(),
             forall|i: int| 0 <= i < xs.len() ==> typed(#[trigger] xs[i], ts[i]),
             forall|i: int| 0 <= i < ts.len() ==> fixed(#[trigger] ts[i])
    ensures enc_all(xs, from).len() <= sum_sizes(ts, from)
    decreases xs, 1int, xs.len() - from
{
    if from < xs.len() {
        lemma_model_size_bound(xs[from], ts[from]);
        lemma_size_tuple(xs, ts, from + 1);
    }
}
