// ---- wire-format spec: unsigned LEB128 ("varint"), written from spec/src/wire-format.md ----
// enc(v): minimal-length little-endian base-128 encoding; continuation bit 0x80 on all but the last byte.
pub open spec fn enc(v: nat) -> Seq<u8>
    decreases v
{
    if v < 128 { seq![v as u8] } else { seq![((v % 128) + 128) as u8] + enc(v / 128) }
}

// ceil(bits/7): the wire-format's maximum encoded length of a `bits`-wide integer
pub open spec fn max_len(bits: nat) -> nat { (bits + 6) / 7 }

pub proof fn lemma_enc_len_pos(v: nat)
    ensures enc(v).len() >= 1
    decreases v
{
    if v >= 128 { lemma_enc_len_pos(v / 128); }
}

// canonical form: every byte but the last has the continuation bit, the last does not,
// and the last byte is non-zero unless the value is 0 (minimal length).
pub proof fn lemma_enc_canonical(v: nat)
    ensures
        forall|j: int| 0 <= j < enc(v).len() - 1 ==> #[trigger] enc(v)[j] >= 128,
        enc(v).last() < 128,
        v != 0 ==> enc(v).last() != 0,
        v == 0 ==> enc(v) =~= seq![0u8],
    decreases v
{
    if v >= 128 {
        lemma_enc_canonical(v / 128);
        lemma_enc_len_pos(v / 128);
        let t = enc(v / 128);
        let h = ((v % 128) + 128) as u8;
        assert(enc(v) =~= seq![h] + t);
        assert forall|j: int| 0 <= j < enc(v).len() - 1 implies #[trigger] enc(v)[j] >= 128 by {
            if j > 0 { assert(enc(v)[j] == t[j - 1]); }
        }
        assert(enc(v).last() == t.last());
    }
}

// length bound: v < 128^k  ==>  |enc(v)| <= k     (k >= 1)
pub open spec fn pow128(k: nat) -> nat decreases k { if k == 0 { 1 } else { 128 * pow128((k - 1) as nat) } }

pub proof fn lemma_enc_len_bound(v: nat, k: nat)
    requires k >= 1, v < pow128(k)
    ensures enc(v).len() <= k
    decreases k
{
    if v >= 128 {
        assert(k >= 2) by { if k == 1 { assert(pow128(1) == 128) by { reveal_with_fuel(pow128, 3); } } }
        assert(pow128(k) == 128 * pow128((k - 1) as nat));
        assert(v / 128 < pow128((k - 1) as nat)) by (nonlinear_arith)
            requires v < 128 * pow128((k - 1) as nat);
        lemma_enc_len_bound(v / 128, (k - 1) as nat);
    }
}

// tightness: v >= 128^(k-1) ==> |enc(v)| >= k
pub proof fn lemma_enc_len_lower(v: nat, k: nat)
    requires k >= 1, v >= pow128((k - 1) as nat)
    ensures enc(v).len() >= k
    decreases k
{
    lemma_enc_len_pos(v);
    if k >= 2 {
        assert(pow128((k - 1) as nat) == 128 * pow128((k - 2) as nat));
        assert(pow128((k - 2) as nat) >= 1) by { lemma_pow128_pos((k - 2) as nat); }
        assert(v >= 128);
        assert(v / 128 >= pow128((k - 2) as nat)) by (nonlinear_arith)
            requires v >= 128 * pow128((k - 2) as nat);
        lemma_enc_len_lower(v / 128, (k - 1) as nat);
    }
}

pub proof fn lemma_pow128_pos(k: nat)
    ensures pow128(k) >= 1
    decreases k
{
    if k > 0 { lemma_pow128_pos((k - 1) as nat); }
}
