// ---- accumulator specification, written from the statements of C08 / C09 ----
pub uninterp spec fn spec_from_bytes_cobs<T>(s: Seq<u8>) -> Option<T>;   // what a frame decodes to (pinned by C06/C07)

pub enum Outcome<T> { Consumed, OverFull, DeserError, Success(T) }

// index of the first zero byte, or len if there is none
pub open spec fn fz(s: Seq<u8>) -> int
    decreases s.len()
{
    if s.len() == 0 { 0 } else if s[0] == 0 { 0 } else { 1 + fz(s.drop_first()) }
}

pub proof fn fz_props(s: Seq<u8>)
    ensures 0 <= fz(s) <= s.len(),
            forall|j: int| 0 <= j < fz(s) ==> s[j] != 0,
            fz(s) < s.len() ==> s[fz(s)] == 0,
    decreases s.len()
{
    if s.len() == 0 {} else if s[0] == 0 {} else {
        fz_props(s.drop_first());
        assert forall|j: int| 0 <= j < fz(s) implies s[j] != 0 by {
            if j > 0 { assert(s[j] == s.drop_first()[j - 1]); }
        }
    }
}

// fz is THE first zero: any index with the two characteristic properties equals it
pub proof fn fz_unique(s: Seq<u8>, n: int)
    requires 0 <= n <= s.len(), forall|j: int| 0 <= j < n ==> s[j] != 0, n < s.len() ==> s[n] == 0
    ensures fz(s) == n
{
    fz_props(s);
    if fz(s) < n { assert(s[fz(s)] != 0); } else if fz(s) > n { assert(s[n] != 0); }
}

pub proof fn fz_concat(a: Seq<u8>, b: Seq<u8>)
    ensures fz(a) < a.len() ==> fz(a + b) == fz(a),
            fz(a) == a.len() ==> fz(a + b) == a.len() + fz(b),
    decreases a.len()
{
    if a.len() == 0 { assert(a + b =~= b); }
    else {
        assert((a + b)[0] == a[0]);
        assert((a + b).drop_first() =~= a.drop_first() + b);
        if a[0] == 0 {} else { fz_concat(a.drop_first(), b); }
    }
}

// ---------- strongest postcondition of one feed call: (outcome, returned remainder, new buffered bytes)
pub open spec fn acc_step<T>(n: nat, view: Seq<u8>, input: Seq<u8>) -> (Outcome<T>, Seq<u8>, Seq<u8>) {
    if input.len() == 0 { (Outcome::Consumed, seq![], view) }
    else if fz(input) < input.len() {
        let z = fz(input);
        let take = input.subrange(0, z + 1);
        let release = input.subrange(z + 1, input.len() as int);
        if view.len() + take.len() <= n {
            match spec_from_bytes_cobs::<T>(view + take) {
                Some(t) => (Outcome::Success(t), release, seq![]),
                None => (Outcome::DeserError, release, seq![]),
            }
        } else { (Outcome::OverFull, release, seq![]) }
    } else {
        if view.len() + input.len() > n { (Outcome::OverFull, input.subrange(n - view.len(), input.len() as int), seq![]) }
        else { (Outcome::Consumed, seq![], view + input) }
    }
}

// ---------- the clauses of C08, transcribed from the property statement (each is one tagged postcondition)
// "what a call consumed plus the remainder it returns is always the chunk it was given": the remainder is a suffix
pub open spec fn c08_conserve(input: Seq<u8>, rem: Seq<u8>) -> bool {
    rem.len() <= input.len() && rem =~= input.subrange(input.len() - rem.len(), input.len() as int)
}
// a zero-terminated segment that fits: exactly one result, the isolated decoding of that segment; the rest is handed back
pub open spec fn c08_frame_fits<T>(n: nat, view: Seq<u8>, input: Seq<u8>, o: Outcome<T>, rem: Seq<u8>, v2: Seq<u8>) -> bool {
    (fz(input) < input.len() && view.len() + fz(input) + 1 <= n) ==> {
        &&& rem =~= input.subrange(fz(input) + 1, input.len() as int)
        &&& v2 =~= seq![]
        &&& match spec_from_bytes_cobs::<T>(view + input.subrange(0, fz(input) + 1)) {
                Some(t) => o == Outcome::Success(t),
                None => o == Outcome::<T>::DeserError,
            }
    }
}
// an unterminated piece that fits is buffered completely, nothing is reported yet
pub open spec fn c08_append_fits<T>(n: nat, view: Seq<u8>, input: Seq<u8>, o: Outcome<T>, rem: Seq<u8>, v2: Seq<u8>) -> bool {
    (fz(input) == input.len() && view.len() + input.len() <= n) ==> (o == Outcome::<T>::Consumed && rem =~= seq![] && v2 =~= view + input)
}

// ---------- the clauses of C09
pub open spec fn c09_reset(input: Seq<u8>, v2: Seq<u8>) -> bool {   // back in the initial state after every zero byte
    fz(input) < input.len() ==> v2 =~= seq![]
}
pub open spec fn c09_overfull<T>(n: nat, view: Seq<u8>, input: Seq<u8>, o: Outcome<T>, rem: Seq<u8>) -> bool {
    // over-long segment: overflow is reported no later than the call that receives its sentinel
    &&& (fz(input) < input.len() && view.len() + fz(input) + 1 > n) ==> (o == Outcome::<T>::OverFull && rem =~= input.subrange(fz(input) + 1, input.len() as int))
    &&& (input.len() > 0 && fz(input) == input.len() && view.len() + input.len() > n) ==> o == Outcome::<T>::OverFull
}
pub open spec fn c09_progress(n: nat, input: Seq<u8>, rem: Seq<u8>, idx_before: nat, idx_after: nat) -> bool {
    (n >= 1 && input.len() > 0) ==> (rem.len() < input.len() || (rem.len() == input.len() && idx_before == n && idx_after == 0))
}

// C08's clauses determine the call completely whenever the chunk's first piece fits: they imply the strongest postcondition
pub proof fn lemma_c08_clauses_determine_step<T>(n: nat, view: Seq<u8>, input: Seq<u8>, o: Outcome<T>, rem: Seq<u8>, v2: Seq<u8>)
    requires
        c08_conserve(input, rem), c08_frame_fits(n, view, input, o, rem, v2), c08_append_fits(n, view, input, o, rem, v2),
        fz(input) < input.len() ==> view.len() + fz(input) + 1 <= n,
        fz(input) == input.len() ==> view.len() + input.len() <= n,
    ensures (o, rem, v2) == acc_step::<T>(n, view, input)
{
    fz_props(input);
    if input.len() == 0 {
        assert(view + input =~= view);
    }
}

// ---------- the documented feed loop on one chunk (`while !window.is_empty() { window = match feed(window) {..} }`)
pub open spec fn fits(n: nat, view: Seq<u8>, chunk: Seq<u8>) -> bool
    decreases chunk.len() via fits_dec
{
    if chunk.len() == 0 { true }
    else if fz(chunk) < chunk.len() {
        view.len() + fz(chunk) + 1 <= n && fits(n, seq![], chunk.subrange(fz(chunk) + 1, chunk.len() as int))
    } else { view.len() + chunk.len() <= n }
}
#[via_fn]
proof fn fits_dec(n: nat, view: Seq<u8>, chunk: Seq<u8>) { fz_props(chunk); }
#[via_fn]
proof fn run_dec<T>(n: nat, view: Seq<u8>, chunk: Seq<u8>) { fz_props(chunk); }

// outcomes reported while feeding one chunk (Consumed is "nothing reported"), and the bytes left buffered
pub open spec fn run<T>(n: nat, view: Seq<u8>, chunk: Seq<u8>) -> (Seq<Outcome<T>>, Seq<u8>)
    decreases chunk.len() via run_dec::<T>
{
    if chunk.len() == 0 { (seq![], view) }
    else if fz(chunk) < chunk.len() {
        let (o, rem, v2) = acc_step::<T>(n, view, chunk);
        let (os, vf) = run::<T>(n, v2, chunk.subrange(fz(chunk) + 1, chunk.len() as int));
        (seq![o] + os, vf)
    } else {
        let (o, rem, v2) = acc_step::<T>(n, view, chunk);
        (seq![], v2)
    }
}

// C08 chunking independence: cutting the stream at ANY point gives the same reports and the same final state.
pub proof fn lemma_chunking<T>(n: nat, view: Seq<u8>, a: Seq<u8>, b: Seq<u8>)
    requires fits(n, view, a + b)
    ensures
        fits(n, view, a),
        fits(n, run::<T>(n, view, a).1, b),
        run::<T>(n, view, a + b).0 == run::<T>(n, view, a).0 + run::<T>(n, run::<T>(n, view, a).1, b).0,
        run::<T>(n, view, a + b).1 == run::<T>(n, run::<T>(n, view, a).1, b).1,
    decreases a.len()
{
    fz_props(a); fz_props(b); fz_props(a + b); fz_concat(a, b);
    if a.len() == 0 {
        assert(a + b =~= b);
    } else if fz(a) < a.len() {
        let z = fz(a);
        let a2 = a.subrange(z + 1, a.len() as int);
        assert((a + b).subrange(z + 1, (a + b).len() as int) =~= a2 + b);
        assert((a + b).subrange(0, z + 1) =~= a.subrange(0, z + 1));
        lemma_chunking::<T>(n, seq![], a2, b);
        let r1 = run::<T>(n, seq![], a2);
        assert(seq![acc_step::<T>(n, view, a).0] + (r1.0 + run::<T>(n, r1.1, b).0) =~= (seq![acc_step::<T>(n, view, a).0] + r1.0) + run::<T>(n, r1.1, b).0);
    } else {
        if b.len() == 0 {
            assert(a + b =~= a);
        } else if fz(b) < b.len() {
            let z = fz(b);
            assert((a + b).subrange(a.len() + z + 1, (a + b).len() as int) =~= b.subrange(z + 1, b.len() as int));
            assert(view + (a + b).subrange(0, a.len() + z + 1) =~= (view + a) + b.subrange(0, z + 1));
        } else {
            assert(view + (a + b) =~= (view + a) + b);
        }
    }
}

// "exactly one result per zero byte, the i-th being the isolated decoding of the i-th segment":
// the reference that decodes each zero-terminated segment on its own
pub open spec fn isolated<T>(view: Seq<u8>, stream: Seq<u8>) -> Seq<Outcome<T>>
    decreases stream.len() via isolated_dec::<T>
{
    if fz(stream) >= stream.len() { seq![] }
    else {
        let seg = view + stream.subrange(0, fz(stream) + 1);
        let o = match spec_from_bytes_cobs::<T>(seg) { Some(t) => Outcome::Success(t), None => Outcome::DeserError };
        seq![o] + isolated::<T>(seq![], stream.subrange(fz(stream) + 1, stream.len() as int))
    }
}
#[via_fn]
proof fn isolated_dec<T>(view: Seq<u8>, stream: Seq<u8>) { fz_props(stream); }

pub open spec fn count_zeros(s: Seq<u8>) -> nat
    decreases s.len()
{
    if s.len() == 0 { 0 } else { (if s[0] == 0 { 1nat } else { 0nat }) + count_zeros(s.drop_first()) }
}

pub proof fn lemma_run_is_isolated<T>(n: nat, view: Seq<u8>, stream: Seq<u8>)
    requires fits(n, view, stream)
    ensures run::<T>(n, view, stream).0 == isolated::<T>(view, stream)
    decreases stream.len()
{
    fz_props(stream);
    if stream.len() == 0 {
    } else if fz(stream) < stream.len() {
        lemma_run_is_isolated::<T>(n, seq![], stream.subrange(fz(stream) + 1, stream.len() as int));
    }
}

pub proof fn lemma_count_zeros_split(s: Seq<u8>, k: int)
    requires 0 <= k <= s.len()
    ensures count_zeros(s) == count_zeros(s.subrange(0, k)) + count_zeros(s.subrange(k, s.len() as int))
    decreases k
{
    if k == 0 {
        assert(s.subrange(0, s.len() as int) =~= s);
    } else {
        lemma_count_zeros_split(s.drop_first(), k - 1);
        assert(s.subrange(0, k).drop_first() =~= s.drop_first().subrange(0, k - 1));
        assert(s.subrange(k, s.len() as int) =~= s.drop_first().subrange(k - 1, s.len() - 1));
    }
}

pub proof fn lemma_no_zero_count(s: Seq<u8>)
    requires forall|j: int| 0 <= j < s.len() ==> s[j] != 0
    ensures count_zeros(s) == 0
    decreases s.len()
{
    if s.len() > 0 { lemma_no_zero_count(s.drop_first()); }
}

pub proof fn lemma_one_result_per_zero<T>(view: Seq<u8>, stream: Seq<u8>)
    ensures isolated::<T>(view, stream).len() == count_zeros(stream)
    decreases stream.len()
{
    fz_props(stream);
    let z = fz(stream);
    if z >= stream.len() {
        lemma_no_zero_count(stream);
    } else {
        let rest = stream.subrange(z + 1, stream.len() as int);
        lemma_one_result_per_zero::<T>(seq![], rest);
        lemma_count_zeros_split(stream, z + 1);
        let head = stream.subrange(0, z + 1);
        lemma_count_zeros_split(head, z);
        lemma_no_zero_count(head.subrange(0, z));
        let last = head.subrange(z, z + 1);
        assert(last.len() == 1 && last[0] == 0);
        assert(count_zeros(last) == 1) by { reveal_with_fuel(count_zeros, 3); assert(last.drop_first().len() == 0); }
    }
}

// ---------- C09 stream-level consequences of the per-call clauses
// resync: after any call whose chunk contained a zero the state equals new()'s, so what follows is decoded as from a fresh accumulator
pub proof fn lemma_resync<T>(n: nat, view: Seq<u8>, chunk: Seq<u8>)
    requires fz(chunk) < chunk.len()
    ensures acc_step::<T>(n, view, chunk).2 =~= seq![],
            acc_step::<T>(n, view, chunk).1 =~= chunk.subrange(fz(chunk) + 1, chunk.len() as int),
            // an over-long segment is reported as overflow by the call that receives its sentinel (or earlier)
            view.len() + fz(chunk) + 1 > n ==> acc_step::<T>(n, view, chunk).0 == Outcome::<T>::OverFull,
{
    fz_props(chunk);
}

// progress: the documented loop's measure  2*|remaining| + (buffer full ? 1 : 0)  strictly decreases when N >= 1
pub open spec fn measure(n: nat, rem_len: nat, idx: nat) -> nat { 2 * rem_len + (if idx == n { 1nat } else { 0nat }) }

pub proof fn lemma_progress<T>(n: nat, view: Seq<u8>, chunk: Seq<u8>)
    requires n >= 1, chunk.len() > 0, view.len() <= n
    ensures ({
        let (o, rem, v2) = acc_step::<T>(n, view, chunk);
        measure(n, rem.len(), v2.len()) < measure(n, chunk.len(), view.len())
    })
{
    fz_props(chunk);
}
