#!/usr/bin/env python3
"""Mechanical extraction of real Rust items from /repo's working tree into a
single Verus file (Route V).  Stdlib only.

The extractor never edits logic.  What it does to an extracted item is exactly:
  * drop attributes / doc comments that precede the item (D1),
  * rename the return value `-> T` to `-> (r: T)` so a postcondition can name it,
  * apply the unit's declared rewrite rules (each with an expected match count;
    a count outside the range is a lost anchor => Inconclusive),
  * insert contract text at structural anchors: end of signature, loop head by
    loop ordinal, start/end of loop body by ordinal, start of fn body.
"""
import re, os, sys

sys.path.insert(0, os.path.dirname(os.path.abspath(__file__)))
from pvlib import Inconclusive


# --------------------------------------------------------------------------
# tokenizer: code tokens only (comments, whitespace skipped)
# --------------------------------------------------------------------------

class Tok:
    __slots__ = ("kind", "text", "start", "end")

    def __init__(self, kind, text, start, end):
        self.kind, self.text, self.start, self.end = kind, text, start, end

    def __repr__(self):
        return "%s(%r@%d)" % (self.kind, self.text, self.start)


IDENT = re.compile(r"[A-Za-z_][A-Za-z0-9_]*")
NUM = re.compile(r"[0-9][0-9A-Za-z_]*(\.[0-9][0-9A-Za-z_]*)?")


def tokenize(s):
    toks = []
    i, n = 0, len(s)
    while i < n:
        c = s[i]
        if c.isspace():
            i += 1
            continue
        if s.startswith("//", i):
            j = s.find("\n", i)
            i = n if j < 0 else j
            continue
        if s.startswith("/*", i):
            depth, j = 1, i + 2
            while j < n and depth:
                if s.startswith("/*", j):
                    depth += 1; j += 2
                elif s.startswith("*/", j):
                    depth -= 1; j += 2
                else:
                    j += 1
            i = j
            continue
        # raw strings r"..", r#".."#, br#".."#
        m = re.match(r"b?r(#*)\"", s[i:i + 40])
        if m:
            hashes = m.group(1)
            close = '"' + hashes
            j = s.find(close, i + m.end())
            j = n if j < 0 else j + len(close)
            toks.append(Tok("lit", s[i:j], i, j)); i = j
            continue
        if c == '"' or (c == "b" and i + 1 < n and s[i + 1] == '"'):
            j = i + (2 if c == "b" else 1)
            while j < n and s[j] != '"':
                j += 2 if s[j] == "\\" else 1
            j += 1
            toks.append(Tok("lit", s[i:j], i, j)); i = j
            continue
        if c == "'" or (c == "b" and i + 1 < n and s[i + 1] == "'"):
            k = i + (1 if c == "b" else 0)
            # char literal: '\x', 'a', '\u{..}' ; lifetime: 'ident not followed by '
            m = re.match(r"'(\\.[^']*|[^\\'])'", s[k:k + 16])
            if m:
                j = k + m.end()
                toks.append(Tok("lit", s[i:j], i, j)); i = j
                continue
            m = IDENT.match(s, k + 1)
            if m:
                toks.append(Tok("lifetime", s[i:m.end()], i, m.end())); i = m.end()
                continue
        m = IDENT.match(s, i)
        if m:
            toks.append(Tok("ident", m.group(0), i, m.end())); i = m.end()
            continue
        m = NUM.match(s, i)
        if m:
            toks.append(Tok("lit", m.group(0), i, m.end())); i = m.end()
            continue
        if s.startswith("->", i) or s.startswith("=>", i) or s.startswith("::", i):
            toks.append(Tok("punct", s[i:i + 2], i, i + 2)); i += 2
            continue
        toks.append(Tok("punct", c, i, i + 1)); i += 1
    return toks


OPEN = {"{": "}", "(": ")", "[": "]"}
CLOSE = {"}", ")", "]"}


def match_close(toks, k):
    """toks[k] is an opening bracket; return index of its matching close."""
    depth = 0
    for j in range(k, len(toks)):
        t = toks[j]
        if t.kind == "punct":
            if t.text in OPEN:
                depth += 1
            elif t.text in CLOSE:
                depth -= 1
                if depth == 0:
                    return j
    raise Inconclusive("unbalanced brackets while extracting")


# --------------------------------------------------------------------------
# item location
# --------------------------------------------------------------------------

def find_block(src, toks, header_re):
    """Find an `impl`/`mod`/`trait` item whose header text matches header_re
    (regex over whitespace-normalised source between the keyword and `{`).
    Returns (tok index of '{', tok index of '}')."""
    pat = re.compile(header_re)
    for k, t in enumerate(toks):
        if t.kind == "ident" and t.text in ("impl", "mod", "trait"):
            # header runs to the first '{' or ';' at bracket depth 0 (angle brackets ignored)
            j = k
            while j < len(toks) and not (toks[j].kind == "punct" and toks[j].text in ("{", ";")):
                j += 1
            if j >= len(toks) or toks[j].text == ";":
                continue
            header = " ".join(src[t.start:toks[j].start].split())
            if pat.search(header):
                return j, match_close(toks, j)
    raise Inconclusive("lost anchor: no impl/mod/trait header matching /%s/" % header_re)


def find_fn(src, toks, name, lo=0, hi=None, nth=0):
    """Find `fn name` among toks[lo:hi]. Returns dict with token indices:
    first (first token of the item incl. pub/const/unsafe), fn, body_open, body_close."""
    hi = len(toks) if hi is None else hi
    seen = 0
    for k in range(lo, hi - 1):
        if toks[k].kind == "ident" and toks[k].text == "fn" and toks[k + 1].text == name:
            if seen < nth:
                seen += 1
                continue
            first = k
            while first - 1 >= lo and (toks[first - 1].text in ("pub", "const", "unsafe", "async", "extern")
                                        or (toks[first - 1].text == ")" and _is_pub_paren(toks, first - 1))):
                if toks[first - 1].text == ")":
                    first = _open_of(toks, first - 1) - 1  # the `pub` before `(crate)`
                else:
                    first -= 1
            j = k
            depth = 0
            while j < hi:
                t = toks[j]
                if t.kind == "punct":
                    if t.text in ("(", "["):
                        depth += 1
                    elif t.text in (")", "]"):
                        depth -= 1
                    elif t.text == "{" and depth == 0:
                        break
                    elif t.text == ";" and depth == 0:
                        raise Inconclusive("fn %s has no body" % name)
                j += 1
            return {"first": first, "fn": k, "body_open": j, "body_close": match_close(toks, j)}
    raise Inconclusive("lost anchor: fn %s not found" % name)


def _open_of(toks, k):
    depth = 0
    for j in range(k, -1, -1):
        if toks[j].text in CLOSE:
            depth += 1
        elif toks[j].text in OPEN:
            depth -= 1
            if depth == 0:
                return j
    return 0


def _is_pub_paren(toks, k):
    o = _open_of(toks, k)
    return o >= 1 and toks[o - 1].text == "pub"


def find_type_item(src, toks, kind, name):
    """struct/enum/const/type/static item text by name."""
    for k in range(len(toks) - 1):
        if toks[k].kind == "ident" and toks[k].text == kind and toks[k + 1].text == name:
            first = k
            while first - 1 >= 0 and (toks[first - 1].text == "pub" or (toks[first - 1].text == ")" and _is_pub_paren(toks, first - 1))):
                first = (_open_of(toks, first - 1) - 1) if toks[first - 1].text == ")" else first - 1
            j = k
            depth = 0
            while j < len(toks):
                t = toks[j]
                if t.kind == "punct":
                    if t.text in ("(", "["):
                        depth += 1
                    elif t.text in (")", "]"):
                        depth -= 1
                    elif t.text == "{" and depth == 0:
                        end = match_close(toks, j)
                        return src[toks[first].start:toks[end].end]
                    elif t.text == ";" and depth == 0:
                        return src[toks[first].start:toks[j].end]
                j += 1
    raise Inconclusive("lost anchor: %s %s not found" % (kind, name))


# --------------------------------------------------------------------------
# fn transformation
# --------------------------------------------------------------------------

def strip_inner_attrs_and_comments(text):
    """Remove `#[...]` attribute lines and comments inside an extracted item (D1)."""
    toks = tokenize(text)
    # rebuild by cutting attribute token ranges: '#' '[' ... ']'  (also '#' '!' '[')
    cuts = []
    k = 0
    while k < len(toks):
        if toks[k].text == "#" and k + 1 < len(toks) and (toks[k + 1].text == "[" or (toks[k + 1].text == "!" and toks[k + 2].text == "[")):
            o = k + 1 if toks[k + 1].text == "[" else k + 2
            c = match_close(toks, o)
            cuts.append((toks[k].start, toks[c].end))
            k = c + 1
        else:
            k += 1
    out, pos = [], 0
    for a, b in cuts:
        out.append(text[pos:a]); pos = b
    out.append(text[pos:])
    text = "".join(out)
    # comments: remove // and /* */ outside literals
    toks = tokenize(text)
    out, pos = [], 0
    for t in toks:
        gap = text[pos:t.start]
        gap = re.sub(r"//[^\n]*", "", gap)
        gap = re.sub(r"/\*.*?\*/", "", gap, flags=re.S)
        out.append(gap); out.append(text[t.start:t.end]); pos = t.end
    out.append(re.sub(r"//[^\n]*", "", text[pos:]))
    return "".join(out)


def apply_rewrites(text, rewrites, what):
    log = []
    for rw in rewrites or []:
        pat, repl, lo, hi = rw[0], rw[1], rw[2], rw[3]
        new, n = re.subn(pat, repl, text)
        if n < lo or n > hi:
            raise Inconclusive("lost anchor in %s: rewrite /%s/ matched %d times (expected %d..%d)" % (what, pat, n, lo, hi))
        log.append({"pattern": pat, "replacement": repl, "matches": n})
        text = new
    return text, log


def loops_in(toks, lo, hi):
    """Indices of loop keyword tokens (for/while/loop) in order of appearance, with body braces."""
    res = []
    for k in range(lo, hi):
        t = toks[k]
        if t.kind == "ident" and t.text in ("for", "while", "loop"):
            if t.text == "for" and toks[k + 1].text == "<":   # for<'a> bound
                continue
            j = k + 1
            depth = 0
            while j < hi:
                x = toks[j]
                if x.kind == "punct":
                    if x.text in ("(", "["):
                        depth += 1
                    elif x.text in (")", "]"):
                        depth -= 1
                    elif x.text == "{" and depth == 0:
                        break
                j += 1
            res.append((k, j, match_close(toks, j)))
    return res


def transform_fn(src, spec):
    """src: extracted fn text (starting at pub/fn). spec: dict with optional keys
    ret_name, sig (contract text), loops {ordinal: text}, inserts [(anchor,text)],
    rename. Returns new text."""
    toks = tokenize(src)
    f = find_fn(src, toks, spec["name"])
    bo, bc = f["body_open"], f["body_close"]
    edits = []  # (pos, text)

    # return value name
    ret = spec.get("ret_name", "r")
    depth = 0
    arrow = None
    for k in range(f["fn"], bo):
        t = toks[k]
        if t.text in ("(", "[", "<"):
            depth += 1
        elif t.text in (")", "]", ">"):
            depth -= 1
        elif t.text == "->" and depth == 0:
            arrow = k
            break
    where_k = None
    for k in range(f["fn"], bo):
        if toks[k].kind == "ident" and toks[k].text == "where":
            where_k = k
            break
    if arrow is not None and ret:
        tend = toks[(where_k or bo) - 1].end
        edits.append((toks[arrow + 1].start, "(%s: " % ret))
        edits.append((tend, ")"))
    # parameter names FROM THE SOURCE (contracts may refer to them as \u00a7p0\u00a7, \u00a7p1\u00a7, ... so that renamed parameters do not matter)
    params = []
    po = None
    for k in range(f["fn"], bo):
        if toks[k].text == "(":
            po = k
            break
    if po is not None:
        pc = match_close(toks, po)
        depth, cur = 0, []
        for k in range(po + 1, pc + 1):
            t = toks[k]
            if k == pc or (t.text == "," and depth == 0):
                names = [x.text for x in cur if x.kind == "ident" and x.text not in ("mut", "ref")]
                if cur:
                    # `self` forms have no ':' ; otherwise the name is the last ident before the first ':'
                    colon = next((i for i, x in enumerate(cur) if x.text == ":"), None)
                    if colon is None:
                        params.append("self")
                    else:
                        ids = [x.text for x in cur[:colon] if x.kind == "ident" and x.text not in ("mut", "ref")]
                        params.append(ids[-1] if ids else "_")
                cur = []
                continue
            if t.text in ("(", "[", "<"):
                depth += 1
            elif t.text in (")", "]", ">"):
                depth -= 1
            cur.append(t)

    def psubst(text):
        if "\u00a7p" not in text:
            return text
        def rep(m):
            i = int(m.group(1))
            if i >= len(params):
                raise Inconclusive("lost anchor in fn %s: parameter #%d no longer exists" % (spec["name"], i))
            return params[i]
        return re.sub("\u00a7p(\\d+)\u00a7", rep, text)

    # contract at end of signature
    if spec.get("sig"):
        edits.append((toks[bo].start, "\n" + psubst(spec["sig"]).rstrip() + "\n"))
    # loops
    lps = loops_in(toks, bo + 1, bc)

    def loop_names(o):
        """names taken FROM THE SOURCE so that contracts survive renamed locals: for `while <ctr> < <seq>.len() { <acc> = f(<acc>, ..`
        -> {ctr, seq, acc}; contract text refers to them as \u00a7ctr\u00a7, \u00a7seq\u00a7, \u00a7acc\u00a7."""
        hdr = src[toks[lps[o][0]].start:toks[lps[o][1]].start]
        body = src[toks[lps[o][1]].start:toks[lps[o][2]].end]
        d = {}
        m = re.search(r"while\s+(\w+)\s*<\s*(\w+)\.len\(\)", hdr)
        d["lenfact"] = "true"
        if m:
            d["ctr"], d["seq"] = m.group(1), m.group(2)
        else:
            # the bound hoisted into an immutable local before the loop: `let n = <seq>.len(); while <ctr> < n`
            m = re.search(r"while\s+(\w+)\s*<\s*(\w+)\s*$", hdr.strip())
            if m:
                pre = src[toks[bo].end:toks[lps[o][0]].start]
                m2 = re.search(r"let\s+%s(?:\s*:\s*usize)?\s*=\s*(\w+)\.len\(\)\s*;" % re.escape(m.group(2)), pre)
                if m2:
                    d["ctr"], d["seq"] = m.group(1), m2.group(1)
                    d["lenfact"] = "%s == %s.len()" % (m.group(2), m2.group(1))
        m = (re.search(r"(\w+)\s*=\s*[\w:]+\(\s*\1\s*,", body) or re.search(r"(\w+)\s*\^=", body)
             or re.search(r"(\w+)\s*=\s*\(\s*\1\s*\^", body))
        if m:
            d["acc"] = m.group(1)
        return d

    def subst(o, text):
        text = psubst(text)
        if "\u00a7" not in text:
            return text
        d = loop_names(o)
        text = text.replace("\u00a7lenfact\u00a7", d.get("lenfact", "true"))
        for k in ("ctr", "seq", "acc"):
            if ("\u00a7%s\u00a7" % k) in text:
                if k not in d:
                    raise Inconclusive("lost anchor in fn %s: loop #%d no longer has the shape `while <ctr> < <seq>.len() { <acc> = f(<acc>, ..) }`" % (spec["name"], o))
                text = text.replace("\u00a7%s\u00a7" % k, d[k])
        return text

    for ordinal, text in (spec.get("loops") or {}).items():
        ordinal = int(ordinal)
        if ordinal >= len(lps):
            raise Inconclusive("lost anchor in fn %s: loop #%d not found (%d loops)" % (spec["name"], ordinal, len(lps)))
        edits.append((toks[lps[ordinal][1]].start, "\n" + subst(ordinal, text).rstrip() + "\n"))
    nloops = spec.get("expect_loops")
    if nloops is not None and nloops != len(lps):
        raise Inconclusive("fn %s now has %d loops, contract was written for %d" % (spec["name"], len(lps), nloops))
    for anchor, text in spec.get("inserts") or []:
        parts = anchor.split(":")
        if parts[0] == "fn" and parts[1] == "start":
            edits.append((toks[bo].end, "\n" + psubst(text) + "\n"))
        elif parts[0] == "loop":
            o = int(parts[1])
            if o >= len(lps):
                raise Inconclusive("lost anchor in fn %s: loop #%d" % (spec["name"], o))
            text = subst(o, text)
            if parts[2] == "start":
                edits.append((toks[lps[o][1]].end, "\n" + text + "\n"))
            elif parts[2] == "end":
                edits.append((toks[lps[o][2]].start, "\n" + text + "\n"))
            elif parts[2] == "before":
                edits.append((toks[lps[o][0]].start, text + "\n"))
            elif parts[2] == "after":
                edits.append((toks[lps[o][2]].end, "\n" + text + "\n"))
        elif parts[0] in ("before", "after"):
            pat = re.compile(anchor.split(":", 1)[1])
            body = src[toks[bo].start:toks[bc].end]
            ms = list(pat.finditer(body))
            if len(ms) != 1:
                raise Inconclusive("lost anchor in fn %s: /%s/ matched %d times" % (spec["name"], pat.pattern, len(ms)))
            p = toks[bo].start + (ms[0].start() if parts[0] == "before" else ms[0].end())
            edits.append((p, ("" if parts[0] == "before" else "\n") + text + "\n"))
        else:
            raise Inconclusive("internal: unknown anchor " + anchor)
    # apply edits back to front (stable for equal positions: keep given order)
    out = src
    order = sorted(range(len(edits)), key=lambda i: (edits[i][0], i))
    res, last = [], 0
    for i in order:
        pos, text = edits[i]
        res.append(out[last:pos]); res.append(text); last = pos
    res.append(out[last:])
    text = "".join(res)
    if spec.get("rename"):
        text = re.sub(r"\bfn\s+%s\b" % re.escape(spec["name"]), "fn " + spec["rename"], text, count=1)
    if spec.get("prefix"):
        text = spec["prefix"].rstrip() + "\n" + text
    return text


def stub_fn(src, spec):
    """For an item whose body can no longer carry its contract (lost loop anchor etc.): keep the real SIGNATURE with the contract and
    replace the body - the item becomes an assumed (external_body) contract so that the rest of the unit is still checked; its own
    obligations are reported inconclusive by the caller."""
    toks = tokenize(src)
    f = find_fn(src, toks, spec["name"])
    only = dict(spec)
    only["loops"] = {}
    only["inserts"] = []
    only["expect_loops"] = None
    head = transform_fn(src[:toks[f["body_open"]].start] + "{ unimplemented!() }", only)
    return "#[verifier::external_body]\n" + head


def extract_fn(repo_src_root, item):
    """item: dict(file, name, within?, nth?) -> raw text of the fn from the working tree."""
    path = os.path.join(repo_src_root, item["file"])
    if not os.path.exists(path):
        raise Inconclusive("lost anchor: file %s" % item["file"])
    src = open(path).read()
    toks = tokenize(src)
    lo, hi = 0, len(toks)
    for w in item.get("within") or []:
        sub_lo, sub_hi = None, None
        # search only inside current range
        pat = re.compile(w)
        found = False
        for k in range(lo, hi):
            t = toks[k]
            if t.kind == "ident" and t.text in ("impl", "mod", "trait"):
                j = k
                while j < hi and not (toks[j].kind == "punct" and toks[j].text in ("{", ";")):
                    j += 1
                if j >= hi or toks[j].text == ";":
                    continue
                header = " ".join(src[t.start:toks[j].start].split())
                if pat.search(header):
                    lo, hi = j + 1, match_close(toks, j)
                    found = True
                    break
        if not found:
            raise Inconclusive("lost anchor: no enclosing item /%s/ in %s" % (w, item["file"]))
    f = find_fn(src, toks, item["name"], lo, hi, item.get("nth", 0))
    text = src[toks[f["first"]].start:toks[f["body_close"]].end]
    line = src.count("\n", 0, toks[f["fn"]].start) + 1
    return text, line


def extract_type(repo_src_root, item):
    path = os.path.join(repo_src_root, item["file"])
    if not os.path.exists(path):
        raise Inconclusive("lost anchor: file %s" % item["file"])
    src = open(path).read()
    toks = tokenize(src)
    return find_type_item(src, toks, item["kind"], item["name"])
