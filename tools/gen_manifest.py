#!/usr/bin/env python3
"""Regenerates /verif/MANIFEST.json from contracts/manifest_meta.py (single source for per-property texts)."""
import json, os, sys, importlib.util
HERE = os.path.dirname(os.path.dirname(os.path.abspath(__file__)))
spec = importlib.util.spec_from_file_location("mm", os.path.join(HERE, "contracts", "manifest_meta.py"))
mm = importlib.util.module_from_spec(spec); spec.loader.exec_module(mm)
checks = []
for pid, m in sorted(mm.CLAIMED.items()):
    checks.append({
        "property_id": pid,
        "quick_cmd": "./pv check %s --tier quick" % pid,
        "thorough_cmd": "./pv check %s --tier thorough" % pid,
        "evidence_file": "evidence/%s.json" % pid,
        "replay_cmd_template": "./pv replay {path}",
        "engine": "pv",
        "level_claimed": {"category": "proof", "text": m["text"], "design_ref": m.get("design_ref", "DESIGN.md s.3 " + pid)},
        "level_note": m["note"],
        "technique": m["technique"],
    })
man = {
    "version": 1,
    "setup_cmd": "python3 tools/setup_check.py",
    "hooks": {"guard": "postcard_verif", "enable": "none needed: contracts are attached to an add-only scratch copy (cfg(kani) child modules) or to mechanically extracted functions; no hook commits in /repo",
              "baseline_off_cmd": "cd /repo && cargo test --workspace --no-fail-fast --offline", "source_commits": [], "add_only": True},
    "engines": [{"name": "pv", "path": "pv", "serves_properties": sorted(mm.CLAIMED), "kind_free_text": "contract-based deductive verification driver: Verus (SMT, unbounded) on functions extracted mechanically from /repo on every run; Kani/CBMC function contracts and Hoare-triple harnesses on an add-only scratch copy of /repo; counterexamples replayed natively with cargo kani playback"}],
    "checks": checks,
    "not_applicable": [{"property_id": k, "reason": v} for k, v in sorted(mm.NOT_APPLICABLE.items())],
    "notes": mm.NOTES,
}
json.dump(man, open(os.path.join(HERE, "MANIFEST.json"), "w"), indent=1)
print("wrote MANIFEST.json with %d checks, %d not_applicable" % (len(checks), len(man["not_applicable"])))
