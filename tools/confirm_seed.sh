#!/bin/bash
# usage: tools/confirm_seed.sh <seed-name> <property> <dir with patch.diff demo.rs NOTES.md> <crate> [cargo test feature args...]
# Confirms in a fresh scratch worktree: suite passes with the change; demo fails with it; demo passes without it.
name=$1; prop=$2; src=$3; crate=$4; shift 4
wt=/tmp/confirm/$name
rm -rf $wt; git -C /repo worktree prune; git -C /repo worktree add -q --detach $wt HEAD || exit 2
cd $wt
git apply $src/patch.diff || { echo "patch does not apply"; exit 2; }
export CARGO_NET_OFFLINE=true
suite=$(cargo test --workspace --no-fail-fast --offline 2>&1 | grep -E "^test result" | awk '{p+=$4; f+=$6} END {print p" passed "f" failed"}')
mkdir -p source/$crate/tests; cp $src/demo.rs source/$crate/tests/pvdemo.rs
with=$(cargo test -p $crate "$@" --test pvdemo --offline 2>&1 | grep -E "^test result|error(\[|:)" | head -3 | tr '\n' ' ')
git apply -R $src/patch.diff
without=$(cargo test -p $crate "$@" --test pvdemo --offline 2>&1 | grep -E "^test result|error(\[|:)" | head -3 | tr '\n' ' ')
cd /; git -C /repo worktree remove --force $wt
echo "SEED $name ($prop): suite_with_change=[$suite] demo_with_change=[$with] demo_without_change=[$without]"
mkdir -p /verif/seeded/$name
cp $src/patch.diff $src/demo.rs /verif/seeded/$name/
[ -f $src/NOTES.md ] && cp $src/NOTES.md /verif/seeded/$name/
python3 - "$name" "$prop" "$suite" "$with" "$without" "$crate" "$*" <<'PY'
import json, sys
name, prop, suite, w, wo, crate, feats = sys.argv[1:8]
meta = {"seed": name, "breaks_property": prop, "origin": "independent sub-agent given only the property text and its own scratch worktree",
        "needs_to_manifest": "see NOTES.md",
        "confirmed": {"existing_suite_with_change": suite, "demo_with_change": w, "demo_without_change": wo,
                      "how": "tools/confirm_seed.sh: fresh worktree of /repo HEAD, git apply patch.diff, cargo test --workspace --offline; demo copied to source/%s/tests and run with `cargo test -p %s %s --test pvdemo --offline` with and without the patch" % (crate, crate, feats)},
        "detected_by": None}
json.dump(meta, open("/verif/seeded/%s/meta.json" % name, "w"), indent=1)
PY
