#!/bin/bash
# usage: tools/runall.sh <tier> C01 C02 ...   (sequential; summary lines to stdout)
tier=$1; shift
for p in "$@"; do
  s=$(date +%s)
  /verif/pv check $p --tier $tier > /var/tmp/run_$p.log 2>&1; rc=$?
  e=$(date +%s)
  echo "$p rc=$rc $((e-s))s $(grep -v '^WARNING' /var/tmp/run_$p.log | tail -1 | cut -c1-300)"
done
