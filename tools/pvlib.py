#!/usr/bin/env python3
"""Core of the postcard contract-verification driver (python3 stdlib only).

Route K: Kani on an add-only scratch copy of /repo's working tree.
Route V: Verus on functions mechanically extracted from /repo's working tree.
See /verif/DESIGN.md.
"""
import json, os, re, shutil, subprocess, sys, time, hashlib, glob

VERIF = os.path.dirname(os.path.dirname(os.path.abspath(__file__)))
REPO = os.environ.get("PV_REPO", "/repo")
SCRATCH_ROOT = os.environ.get("PV_SCRATCH", "/var/tmp")
KANI_FLAGS = ["-Z", "function-contracts", "-Z", "mem-predicates", "-Z", "stubbing"]
NCPU = os.cpu_count() or 4


class Inconclusive(Exception):
    """Infrastructure problem: lost anchor, build failure, timeout. Never a violation."""


def log(*a):
    print(*a, file=sys.stderr, flush=True)


def sh(cmd, cwd=None, timeout=None, env=None):
    e = dict(os.environ)
    e["CARGO_NET_OFFLINE"] = "true"
    e.pop("RUSTFLAGS", None)
    if env:
        e.update(env)
    t0 = time.time()
    try:
        p = subprocess.run(cmd, cwd=cwd, env=e, stdout=subprocess.PIPE, stderr=subprocess.STDOUT,
                           timeout=timeout, text=True, errors="replace")
        return p.returncode, p.stdout, time.time() - t0
    except subprocess.TimeoutExpired as ex:
        out = ex.stdout or ""
        if isinstance(out, bytes):
            out = out.decode(errors="replace")
        subprocess.run(["pkill", "-x", "cbmc"])
        return 124, out + "\n[pv] TIMEOUT after %ss\n" % timeout, time.time() - t0


# --------------------------------------------------------------------------
# scratch workspace (Route K)
# --------------------------------------------------------------------------

class Scratch:
    def __init__(self, tag):
        self.root = os.path.join(SCRATCH_ROOT, "pcverif.%s.%d" % (tag, os.getpid()))
        self.ws = os.path.join(self.root, "ws")

    def __enter__(self):
        shutil.rmtree(self.root, ignore_errors=True)
        os.makedirs(self.ws)
        rc, out, _ = sh(["rsync", "-a", "--exclude", "target", "--exclude", ".git",
                         REPO + "/Cargo.toml", REPO + "/Cargo.lock", REPO + "/source", self.ws + "/"])
        if rc != 0:
            raise Inconclusive("rsync of %s failed: %s" % (REPO, out[-500:]))
        return self

    def __exit__(self, *a):
        if os.environ.get("PV_KEEP"):
            log("[pv] keeping scratch", self.root)
        else:
            shutil.rmtree(self.root, ignore_errors=True)


def kani_mod_path(modspec):
    """modspec 'postcard/src/ser/serializer.rs::verif_zz' -> (target rel path, file in /verif)."""
    target, name = modspec.split("::")
    return target, os.path.join(VERIF, "contracts", "kani", target, name + ".rs")


def apply_kani_mods(ws, modspecs):
    """Append (never edit) cfg(kani) child modules to files of the scratch copy."""
    done = []
    for ms in sorted(set(modspecs)):
        target, src = kani_mod_path(ms)
        dst = os.path.join(ws, "source", target)
        if not os.path.exists(dst):
            raise Inconclusive("lost anchor: file source/%s no longer exists (needed by %s)" % (target, ms))
        if not os.path.exists(src):
            raise Inconclusive("internal: missing contract module " + src)
        with open(dst, "a") as f:
            f.write("\n\n// ---- appended by /verif (%s), cfg(kani) only ----\n" % ms)
            f.write(open(src).read())
        done.append(ms)
    return done


def apply_splices(ws, splices):
    """Insert contract attribute lines immediately above a fn item located by
    (file, enclosing header regex, fn name). Insert-only."""
    for sp in splices:
        path = os.path.join(ws, "source", sp["file"])
        if not os.path.exists(path):
            raise Inconclusive("lost anchor: %s" % sp["file"])
        text = open(path).read()
        start = 0
        if sp.get("within"):
            m = re.search(sp["within"], text)
            if not m:
                raise Inconclusive("lost anchor: enclosing item /%s/ in %s" % (sp["within"], sp["file"]))
            start = m.end()
        m = re.compile(r"^([ \t]*)((?:#\[[^\n]*\]\s*\n[ \t]*)*)((?:pub(?:\([a-z]+\))?\s+)?(?:const\s+)?(?:unsafe\s+)?fn\s+%s\b)" % re.escape(sp["fn"]),
                       re.M).search(text, start)
        if not m:
            raise Inconclusive("lost anchor: fn %s in %s" % (sp["fn"], sp["file"]))
        indent = m.group(1)
        attrs = "".join(indent + "#[cfg_attr(kani, %s)]\n" % a for a in sp["attrs"])
        text = text[:m.start()] + attrs + text[m.start():]
        open(path, "w").write(text)


# --------------------------------------------------------------------------
# Kani runner
# --------------------------------------------------------------------------

RE_THREAD_CHECK = re.compile(r"^(?:Thread (\d+): )?Checking harness ([\w:<>]+)\.\.\.")
RE_TIME = re.compile(r"^Verification Time: ([\d.]+)s")
RE_COVER = re.compile(r"\*\* (\d+) of (\d+) cover properties satisfied")
RE_FAILCOUNT = re.compile(r"\*\* (\d+) of (\d+) failed")


def parse_kani_output(out):
    """-> dict full_harness_name -> {status, time_s, failed_checks[], covers(sat,total), checks}"""
    res = {}
    thread_h = {}
    cur = None
    lines = out.splitlines()
    i = 0
    while i < len(lines):
        ln = lines[i]
        m = RE_THREAD_CHECK.match(ln)
        if m:
            th, h = m.group(1), m.group(2)
            res.setdefault(h, {"status": "unknown", "failed_checks": [], "covers": None, "time_s": None, "checks": None, "raw": []})
            if th is None:
                cur = h
            else:
                thread_h[th] = h
            i += 1
            continue
        m = re.match(r"^Thread (\d+):\s*$", ln)
        if m and m.group(1) in thread_h:
            cur = thread_h[m.group(1)]
            i += 1
            continue
        if cur is not None:
            r = res[cur]
            r["raw"].append(ln)
            m = RE_FAILCOUNT.search(ln)
            if m:
                r["checks"] = (int(m.group(1)), int(m.group(2)))
            m = RE_COVER.search(ln)
            if m:
                r["covers"] = (int(m.group(1)), int(m.group(2)))
            if ln.startswith("Failed Checks:"):
                desc = ln[len("Failed Checks:"):].strip()
                loc = lines[i + 1].strip() if i + 1 < len(lines) and lines[i + 1].lstrip().startswith("File:") else ""
                r["failed_checks"].append({"desc": desc, "loc": loc})
            if ln.startswith("VERIFICATION:- SUCCESSFUL"):
                r["status"] = "success"
            elif ln.startswith("VERIFICATION:- FAILED"):
                r["status"] = "failed"
            if ln.startswith("CBMC timed out"):
                r["timed_out"] = True
                cur = None
            if ln.startswith("Manual Harness Summary") or ln.startswith("Complete - "):
                cur = None
            m = RE_TIME.match(ln)
            if m:
                r["time_s"] = float(m.group(1))
                cur = None
        i += 1
    for r in res.values():
        r["raw"] = "\n".join(r["raw"][-60:])
    return res


def run_kani_group(ws, pkg, features, harnesses, timeout, extra=None, jobs=None, harness_timeout=None):
    """One cargo-kani invocation for a (package, feature set). harnesses: list of
    harness paths (suffix patterns accepted by --harness). Returns (results, raw_output, wall)."""
    cmd = ["cargo", "kani", "-p", pkg]
    if features:
        cmd += ["--features", features]
    cmd += KANI_FLAGS + ["--output-format", "terse", "-j", str(jobs or min(NCPU, max(1, len(harnesses))))]
    cmd += (extra or [])
    if harness_timeout:
        cmd += ["-Z", "unstable-options", "--harness-timeout", "%ds" % harness_timeout]
    for h in harnesses:
        cmd += ["--harness", h]
    rc, out, wall = sh(cmd, cwd=ws, timeout=timeout)
    res = parse_kani_output(out)
    if "error: could not compile" in out or re.search(r"^error(\[E\d+\])?:", out, re.M) and not res:
        errs = "\n".join(l for l in out.splitlines() if l.startswith("error"))[:3000]
        ctx = out[out.find("error"):][:6000] if "error" in out else out[-3000:]
        raise Inconclusive("kani build failed for %s [%s]:\n%s\n%s" % (pkg, features, errs, ctx))
    return res, out, wall, rc


def find_result(res, harness):
    """Match a registry harness name (suffix of the full path) to a parsed result."""
    hits = [k for k in res if k == harness or k.endswith("::" + harness)]
    if len(hits) == 1:
        return hits[0], res[hits[0]]
    return None, None


def kani_playback(ws, pkg, features, harness, modspecs=(), timeout=900, fail_descs=()):
    """Re-run one failed harness with `--concrete-playback=print`, splice the generated unit test into the
    appended harness module of the scratch copy and execute it natively (`cargo kani playback`): the real
    function runs on the counterexample outside the verifier. Returns dict."""
    info = {"harness": harness, "concrete_values": None, "generated_test": None, "native_replay": None}
    cmd = ["cargo", "kani", "-p", pkg] + (["--features", features] if features else []) + KANI_FLAGS + \
          ["-Z", "concrete-playback", "--concrete-playback=print", "--output-format", "terse", "--harness", harness]
    rc, out, wall = sh(cmd, cwd=ws, timeout=timeout)
    m = None
    for blk in re.finditer(r"/// Check for `(\w+)`: ([^\n]*)\n(?:[ \t]*///[^\n]*\n|[ \t]*\n)*\s*(#\[test\]\s*\n\s*fn (kani_concrete_playback_\w+)\(\) \{.*?\n\s*kani::concrete_playback_run\([^\n]*\n\s*\})", out, re.S):
        if blk.group(1) != "cover":
            m = blk
            break
    deterministic = False
    if not m:
        if "Concrete playback unit test" in out or not fail_descs:
            info["note"] = "kani produced no usable concrete playback test (e.g. contract harness or stubbed code)"
            info["kani_output_tail"] = out[-1500:]
            return info
        # the harness draws NO nondeterministic value (its "input" is a concrete value / a derived type): the harness body
        # itself is the failing run. Execute it natively with an empty value list; it only counts as reproduced when the
        # native panic carries the text of the failed check.
        deterministic = True
        short_fn = harness.split("::")[-1]
        tname = "kani_concrete_playback_%s_deterministic" % short_fn
        test_src = "#[test]\nfn %s() {\n    let concrete_vals: Vec<Vec<u8>> = vec![];\n    kani::concrete_playback_run(concrete_vals, %s);\n}" % (tname, short_fn)
        info["check"] = "assertion: " + "; ".join(fail_descs)
        info["note"] = "harness has no nondeterministic input: replayed as is"
        info["concrete_values"] = []
    else:
        info["check"] = m.group(1) + ": " + m.group(2)
        test_src, tname = m.group(3), m.group(4)
        vals = re.findall(r"//\s*(.*)\n\s*vec!\[([^\]]*)\]", test_src)
        info["concrete_values"] = [{"interp": v[0].strip(), "bytes": [int(x) for x in v[1].split(",") if x.strip()]} for v in vals]
    info["generated_test"] = tname
    info["generated_test_src"] = test_src
    # splice into the harness module (its file text ends with the module's closing brace)
    short = harness.split("::")[-2] if "::" in harness else None
    placed = False
    for ms in modspecs:
        target, src = kani_mod_path(ms)
        if short and not ms.endswith("::" + short):
            continue
        path = os.path.join(ws, "source", target)
        txt = open(path).read()
        # the appended module starts with `mod <short> {`: put the test right after that header line
        hm = None
        for hm in re.finditer(r"^[ \t]*(?:pub(?:\([a-z]+\))?\s+)?mod %s \{[ \t]*\n" % re.escape(short), txt, re.M):
            pass
        if hm is None:
            continue
        txt = txt[:hm.end()] + "#[allow(unused_imports)] use super::*;\n" * 0 + test_src + "\n" + txt[hm.end():]
        open(path, "w").write(txt)
        info["generated_test_file"] = "source/" + target
        placed = True
        break
    if not placed:
        info["note"] = "could not place the playback test next to harness " + harness
        return info
    cmd = ["cargo", "kani", "playback", "-p", pkg, "--lib"] + (["--features", features] if features else []) + \
          ["-Z", "concrete-playback", "--", tname]
    rc, out, wall = sh(cmd, cwd=ws, timeout=timeout, env={"RUST_BACKTRACE": "0"})
    keep = [l for l in out.splitlines() if not re.match(r"^(warning|\s*\||\s*=|\s*-->|\s*$|\s*\d+ \|)", l)]
    reproduced = "test result: FAILED" in out and "panicked at" in out
    if deterministic:
        reproduced = reproduced and any(d.strip('"') in out for d in fail_descs if len(d.strip('"')) > 8)
    info["native_replay"] = {"rc": rc, "reproduced": reproduced, "output_tail": "\n".join(keep[-25:])}
    return info


# --------------------------------------------------------------------------
# Evidence
# --------------------------------------------------------------------------

def write_evidence(prop, tier, seed, coverage, assumptions, wall, violations, extra=None):
    os.makedirs(os.path.join(VERIF, "evidence"), exist_ok=True)
    ev = {"property_id": prop, "tier": tier, "seed": seed, "level": "proof", "coverage": coverage,
          "assumptions": assumptions, "wall_s": round(wall, 2), "violations": violations}
    if extra:
        ev.update(extra)
    path = os.path.join(VERIF, "evidence", prop + ".json")
    tmp = path + ".tmp"
    json.dump(ev, open(tmp, "w"), indent=1)
    os.replace(tmp, path)
    return path


def repo_rev():
    rc, out, _ = sh(["git", "-C", REPO, "rev-parse", "HEAD"])
    rc2, out2, _ = sh(["git", "-C", REPO, "status", "--porcelain"])
    return out.strip(), bool(out2.strip())
