#!/usr/bin/env python3
"""Route V: build one Verus file per unit from /repo's working tree + contracts, run verus, map results."""
import json, os, re, sys, time, importlib.util, tempfile, shutil
sys.path.insert(0, os.path.dirname(os.path.abspath(__file__)))
from pvlib import VERIF, REPO, SCRATCH_ROOT, Inconclusive, sh, log
import extract

SRC_ROOT = lambda: os.path.join(REPO, "source")


def load_unit(name):
    path = os.path.join(VERIF, "contracts", "verus", name + ".py")
    spec = importlib.util.spec_from_file_location("unit_" + name, path)
    mod = importlib.util.module_from_spec(spec)
    spec.loader.exec_module(mod)
    return mod.UNIT


def item_source(item):
    """Where an item's text comes from: /repo/source by default, or the pinned registry copy of a dependency."""
    if item.get("root") == "cobs":
        reg = os.path.expanduser("~/.cargo/registry/src")
        import glob
        c = glob.glob(os.path.join(reg, "*", "cobs-0.2.3"))
        if not c:
            raise Inconclusive("cobs-0.2.3 source not in cargo registry")
        return c[0]
    return SRC_ROOT()


def build_unit(unit, force_lost=None):
    """-> (text, linemap[list of (item_name, default_obls)], meta). force_lost: {item name: reason} - items to replace by their
    assumed signature stub (used when the verifier cannot even type-check an edited function against its contract)."""
    force_lost = force_lost or {}
    chunks = []  # (owner, obls, text)
    meta = {"functions": [], "rewrites": [], "dropped": ["attributes and doc comments preceding/inside extracted items (D1)"]}
    head = "#![allow(unused_imports, unused_variables, unused_mut, dead_code, unused_parens, unused_assignments, non_snake_case)]\nuse vstd::prelude::*;\n"
    for u in unit.get("uses", []):
        head += u + "\n"
    head += "verus! {\n"
    for g in unit.get("globals", ["global size_of usize == 8;"]):
        head += g + "\n"
    chunks.append(("<head>", [], head))
    for pf in unit.get("prelude", []):
        chunks.append(("<spec:%s>" % pf, ["spec:" + pf], open(os.path.join(VERIF, "specs", pf)).read()))
    for it in unit["items"]:
        k = it["kind"]
        if k == "raw":
            chunks.append((it.get("name", "<raw>"), it.get("obls", []), it["text"]))
            continue
        root = item_source(it)
        if k == "fn":
            if it.get("assumed"):
                # callee whose contract is PROVED IN ANOTHER UNIT: keep the real signature (extracted), attach that contract, drop the body.
                # Verification is modular - callers see only the contract - so nothing is lost; recorded in the evidence as assumed-here.
                try:
                    raw2, line2 = extract.extract_fn(root, it)
                    t2 = extract.strip_inner_attrs_and_comments(raw2)
                    t2, _ = extract.apply_rewrites(t2, [(r[0], r[1], 0, 10 ** 6) for r in (it.get("rewrites") or [])], "fn " + it["name"])
                    chunks.append((it.get("rename", it["name"]) + "<assumed>", [], extract.stub_fn(t2, it)))
                    meta.setdefault("assumed_contracts", []).append({"fn": it.get("qual", it["name"]), "proved_in": it["assumed"]})
                except Inconclusive as ex:
                    meta.setdefault("lost_items", {})[it.get("rename", it["name"])] = str(ex)
                continue
            try:
                if it.get("rename", it["name"]) in force_lost:
                    raise Inconclusive(force_lost[it.get("rename", it["name"])])
                raw, line = extract.extract_fn(root, it)
                txt = extract.strip_inner_attrs_and_comments(raw)
                txt, rlog = extract.apply_rewrites(txt, it.get("rewrites"), "fn " + it["name"])
                txt = extract.transform_fn(txt, it)
            except Inconclusive as ex:
                if it.get("optional"):
                    meta.setdefault("optional_absent", []).append(it.get("qual", it["name"]))
                    continue
                # a lost anchor in ONE item only loses that item: its obligations become inconclusive; if its signature still carries the
                # contract it stays in the unit as an ASSUMED stub so that its callers are still checked
                meta.setdefault("lost_items", {})[it.get("rename", it["name"])] = str(ex)
                try:
                    raw2, _l = extract.extract_fn(root, it)
                    t2 = extract.strip_inner_attrs_and_comments(raw2)
                    t2, _ = extract.apply_rewrites(t2, [(r[0], r[1], 0, 10 ** 6) for r in (it.get("rewrites") or [])], "fn " + it["name"])
                    stub = extract.stub_fn(t2, it)
                    chunks.append((it.get("rename", it["name"]) + "<stub>", [], stub))
                except Exception:
                    pass
                continue
            meta["functions"].append({"fn": it.get("qual", it["name"]), "file": ("source/" if not it.get("root") else it["root"] + ":") + it["file"], "line": line,
                                      "sha256_of_extracted_text": __import__("hashlib").sha256(raw.encode()).hexdigest()[:16]})
            meta["rewrites"] += [dict(r, item=it["name"]) for r in rlog]
            chunks.append((it.get("rename", it["name"]), it.get("obls", []), txt))
        else:
            raw = extract.extract_type(root, it)
            txt = extract.strip_inner_attrs_and_comments(raw)
            txt, rlog = extract.apply_rewrites(txt, it.get("rewrites"), "%s %s" % (it["kind"], it["name"]))
            meta["rewrites"] += [dict(r, item=it["name"]) for r in rlog]
            if it.get("prefix"):
                txt = it["prefix"] + "\n" + txt
            chunks.append((it["name"], [], txt))
        if it.get("wrap"):
            o, t, tx = chunks.pop()
            chunks.append((o, t, it["wrap"][0] + "\n" + tx + "\n" + it["wrap"][1]))
    lost = set(meta.get("lost_items", {}))
    for needs, text in unit.get("trailer_parts", []):
        if not (set(needs) & lost):
            chunks.append(("<trailer>", unit.get("trailer_obls", []), text))
    if unit.get("trailer") and not lost:
        chunks.append(("<trailer>", unit.get("trailer_obls", []), unit["trailer"]))
    chunks.append(("<tail>", [], "\n} // verus!\nfn main() {}\n"))
    text, linemap = "", []
    for owner, obls, t in chunks:
        if not t.endswith("\n"):
            t += "\n"
        text += t
        linemap += [(owner, obls)] * t.count("\n")
    return text, linemap, meta


def scan_trusted(text):
    out = []
    for i, ln in enumerate(text.splitlines(), 1):
        for kw in ("external_body", "assume_specification", "admit(", "assume(", "exec_allows_no_decreases_clause", "#[verifier::external", "axiom"):
            if kw in ln and not ln.strip().startswith("//"):
                out.append("%s @line %d: %s" % (kw, i, ln.strip()[:140]))
                break
    return out


def run_verus(text, tag, timeout=600, extra_args=None):
    d = tempfile.mkdtemp(prefix="pcverus.%s." % tag, dir=SCRATCH_ROOT)
    try:
        path = os.path.join(d, tag + ".rs")
        open(path, "w").write(text)
        if os.environ.get("PV_KEEP"):
            shutil.copy(path, os.path.join(SCRATCH_ROOT, "pv_last_%s.rs" % tag))
        cmd = ["verus", path, "--output-json", "--time", "--triggers-mode", "silent", "--error-format=json", "--num-threads", "8", "--multiple-errors", "40"] + (extra_args or [])
        import subprocess
        t0 = time.time()
        try:
            p = subprocess.run(cmd, cwd=d, stdout=subprocess.PIPE, stderr=subprocess.PIPE, timeout=timeout, text=True, errors="replace")
        except subprocess.TimeoutExpired:
            subprocess.run(["pkill", "-x", "z3"])
            raise Inconclusive("verus timeout (%ss) on unit %s" % (timeout, tag))
        wall = time.time() - t0
        try:
            js = json.loads(p.stdout[p.stdout.index("{"):])
        except Exception:
            raise Inconclusive("verus produced no JSON on unit %s: %s" % (tag, (p.stderr or p.stdout)[-1500:]))
        diags = []
        for ln in p.stderr.splitlines():
            if ln.startswith("{"):
                try:
                    dj = json.loads(ln)
                except Exception:
                    continue
                if dj.get("level") == "error":
                    diags.append(dj)
        return js, diags, wall
    finally:
        shutil.rmtree(d, ignore_errors=True)


def check_unit(name, canary=True, timeout=600, force_lost=None, _depth=0):
    """-> dict(ok, functions{fn: {success,time_ms,rlimit,mode}}, errors[{fn, obls, line, msg, text}], meta, wall, trusted)"""
    unit = load_unit(name)
    text, linemap, meta = build_unit(unit, force_lost)
    js, diags, wall = run_verus(text, name, timeout, unit.get("verus_args"))
    vr = js.get("verification-results", {})
    lines = text.splitlines()
    errors = []
    hard = []
    for d in diags:
        msg = d.get("message", "")
        if msg.startswith("aborting due to"):
            continue
        spans = d.get("spans") or []
        prim = [s for s in spans if s.get("is_primary")] or spans
        if not prim:
            hard.append(msg)
            continue
        # every span contributes: primary names the failed clause, secondary the exit / call site
        tagged, owner = [], None
        for s in prim + [s for s in spans if not s.get("is_primary")]:
            ln = s["line_start"]
            if 1 <= ln <= len(linemap):
                own, obls = linemap[ln - 1]
                m = re.search(r"@obl:([\w.,]+)", lines[ln - 1])
                if m and not tagged:
                    tagged = m.group(1).split(",")
                if owner is None or owner.startswith("<"):
                    owner = own
                    dflt = obls
        errors.append({"fn": owner, "obls": tagged or dflt, "line": prim[0]["line_start"], "msg": msg,
                       "label": prim[0].get("label"), "text": lines[prim[0]["line_start"] - 1].strip()[:200] if prim[0]["line_start"] <= len(lines) else ""})
    VERIF_MSG = re.compile(r"(not satisfied|assertion failed|possible |decreases|Resource limit|rlimit|failed to prove|cannot prove|could not prove|might not|assertion might|loop invariant|unreachable)", re.I)
    nonverif = [e for e in errors if not VERIF_MSG.search(e["msg"])]
    if nonverif and _depth < 3:
        # rustc / mode / unsupported-construct errors inside an extracted fn: that item alone is treated as lost (replaced by its assumed
        # signature stub) and the unit is re-run, so that the other items are still checked. Never a violation.
        item_names = set(it.get("rename", it["name"]) for it in unit["items"] if it["kind"] == "fn")
        owners = set(e["fn"] for e in nonverif if e["fn"] in item_names and e["fn"] not in (force_lost or {}))
        if owners:
            fl = dict(force_lost or {})
            for o in owners:
                first = next(e for e in nonverif if e["fn"] == o)
                fl[o] = "the edited function no longer type-checks against its contract (compile-stage): %s @ %s" % (first["msg"][:160], first["text"][:100])
            return check_unit(name, canary, timeout, fl, _depth + 1)
    if nonverif:
        raise Inconclusive("verus could not process unit %s (compile-stage error in extracted fn %s): %s @ %s" % (name, nonverif[0]["fn"], nonverif[0]["msg"], nonverif[0]["text"]))
    if vr.get("encountered-vir-error") or (not vr.get("success") and not errors) or hard:
        why = "; ".join(hard) or "; ".join(d.get("message", "") for d in diags)[:1500]
        raise Inconclusive("verus could not process unit %s (unsupported construct or extraction problem): %s" % (name, why))
    funcs = {}
    try:
        for modt in js["times-ms"]["smt"]["smt-run-module-times"]:
            for fb in modt.get("function-breakdown", []):
                fn = fb["function"].split("::", 1)[-1]
                funcs[fn] = {"success": fb["success"], "time_ms": fb["time"], "rlimit": fb["rlimit"], "mode": fb.get("mode:")}
    except KeyError:
        pass
    for e in errors:
        if "rlimit" in e["msg"] or "timed out" in e["msg"] or "resource limit" in e["msg"].lower():
            e["rlimit"] = True   # undecided for this function only; the caller consults the witness harness
    res = {"unit": name, "ok": bool(vr.get("success")), "verified": vr.get("verified"), "n_errors": vr.get("errors"),
           "functions": funcs, "errors": errors, "meta": meta, "wall": wall, "trusted": scan_trusted(text),
           "smt_ms": js.get("times-ms", {}).get("smt", {}).get("smt-run")}
    if canary and res["ok"]:
        ctext = text.replace("\n} // verus!", "\nproof fn pv_canary_must_fail() { assert(false); }\n} // verus!")
        cjs, cdiags, cwall = run_verus(ctext, name + "_canary", timeout, unit.get("verus_args"))
        cvr = cjs.get("verification-results", {})
        res["canary_ok"] = (cvr.get("errors") == 1 and not cvr.get("success"))
        res["wall"] += cwall
        if not res["canary_ok"]:
            raise Inconclusive("vacuity canary: `assert(false)` was NOT rejected in unit %s - inconsistent assumptions" % name)
    return res


if __name__ == "__main__":
    name = sys.argv[1]
    if len(sys.argv) > 2 and sys.argv[2] == "--emit":
        t, lm, meta = build_unit(load_unit(name))
        sys.stdout.write(t)
        sys.exit(0)
    try:
        r = check_unit(name)
    except Inconclusive as e:
        print("INCONCLUSIVE:", e)
        sys.exit(2)
    print(json.dumps({k: v for k, v in r.items() if k not in ("meta",)}, indent=1))
    sys.exit(0 if r["ok"] else 1)
