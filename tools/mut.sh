#!/bin/bash
# usage: tools/mut.sh <name> <file-rel-to-repo> <python-expr transforming s> -- <pv args...>
# makes a scratch copy of /repo under /var/tmp/mut.<name>, applies the edit, runs pv against it, removes it.
set -e
name=$1; file=$2; expr=$3; shift 3; [ "$1" = "--" ] && shift
d=/var/tmp/mut.$name
rm -rf $d; mkdir -p $d
rsync -a --exclude target --exclude .git /repo/ $d/
python3 - "$d/$file" "$expr" <<'PY'
import sys
p, expr = sys.argv[1], sys.argv[2]
s = open(p).read()
t = eval(expr)
assert t != s, "mutation did not change the file"
open(p, "w").write(t)
PY
set +e
for prop in "$@"; do
  PV_REPO=$d /verif/pv check $prop; echo "== $name $prop rc=$?"
done
rm -rf $d
