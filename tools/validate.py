#!/usr/bin/env python3
import json, sys, glob, os
import jsonschema
H = os.path.dirname(os.path.dirname(os.path.abspath(__file__)))
jsonschema.validate(json.load(open(H + '/MANIFEST.json')), json.load(open('/root/.vp/MANIFEST.schema.json')))
es = json.load(open('/root/.vp/EVIDENCE.schema.json'))
for f in sorted(glob.glob(H + '/evidence/C*.json')):
    e = json.load(open(f)); jsonschema.validate(e, es)
    c = e['coverage']; print(os.path.basename(f), e['tier'], c['obligations'], c['discharged'], e['wall_s'], 'viol=%s' % e.get('violations'))
print('all valid')
