#!/usr/bin/env python3
"""setup_cmd: nothing to build (python3 stdlib driver); verifies the tools the checks need are present offline."""
import shutil, subprocess, sys, os
ok = True
for t in ("verus", "cargo-kani", "cbmc", "rsync", "cargo"):
    p = shutil.which(t)
    print("%-12s %s" % (t, p or "MISSING"))
    ok = ok and bool(p)
os.makedirs(os.path.join(os.path.dirname(os.path.dirname(os.path.abspath(__file__))), "evidence"), exist_ok=True)
sys.exit(0 if ok else 1)
