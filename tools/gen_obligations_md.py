#!/usr/bin/env python3
"""Writes /verif/OBLIGATIONS.md: the registry rendered per property (appendix of DESIGN.md)."""
import os, sys, importlib.util
H = os.path.dirname(os.path.dirname(os.path.abspath(__file__)))
spec = importlib.util.spec_from_file_location("registry", os.path.join(H, "contracts", "registry.py"))
reg = importlib.util.module_from_spec(spec); spec.loader.exec_module(reg)
props = sorted(set(p for o in reg.OBLIGATIONS for p in o["props"]))
out = ["# Obligations per property (generated from contracts/registry.py by tools/gen_obligations_md.py)\n",
       "role D = deciding (failure => VIOLATION), S = supporting (never alarms by itself). back end: V = Verus on extracted real code (unbounded), L = Verus lemma / exec driver over contracts only, O = optional item, K = Kani/CBMC. label: unbounded | complete (loop-free or width-bounded, full domain) | bounded(...). tier q = quick+thorough, t = thorough only.\n"]
for p in props:
    obs = [o for o in reg.OBLIGATIONS if p in o["props"]]
    out.append("\n## %s  (%d obligations)\n" % (p, len(obs)))
    out.append("| obligation | role | back end | label | tier | functions under contract | what is proved |")
    out.append("|---|---|---|---|---|---|---|")
    for o in obs:
        be = "K" if o["backend"] == "kani" else o.get("kind", "V")
        out.append("| %s | %s | %s | %s | %s | %s | %s |" % (o["id"], o["props"][p], be, o["label"], o["tier"][0], "<br>".join(o.get("fns", [])[:6]) or "-", (o.get("note") or "").replace("|", "\\|")))
    a = reg.ASSUMPTIONS.get(p, [])
    if a:
        out.append("\nAssumptions / not covered:\n" + "\n".join("* " + x for x in a))
open(os.path.join(H, "OBLIGATIONS.md"), "w").write("\n".join(out) + "\n")
print("wrote OBLIGATIONS.md", len(reg.OBLIGATIONS), "obligations")
