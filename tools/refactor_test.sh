#!/bin/bash
# usage: tools/refactor_test.sh <diff file> <prop>... : applies a behaviour-preserving patch to a scratch copy and runs the checks; expects NOT exit 1
diff=$1; shift
d=/var/tmp/rf.$$; rm -rf $d; mkdir -p $d; rsync -a --exclude target --exclude .git /repo/ $d/
patch -p1 -s -d $d -i $diff || { echo "patch failed"; exit 2; }
for prop in "$@"; do
  out=$(PV_REPO=$d PV_NO_EVIDENCE=1 /verif/pv check $prop 2>&1 | grep -v "^WARNING"); rc=$?
  rc=$(echo "$out" | grep -c "^VIOLATION"); 
  echo "== $(basename $diff) $prop violations=$rc :: $(echo "$out" | tail -1 | cut -c1-200)"
done
rm -rf $d
