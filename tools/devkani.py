#!/usr/bin/env python3
"""dev helper: persistent scratch at /var/tmp/pcdev with the modules of the selected obligations appended; runs the
harnesses matching the given obligation-id regex and prints status/time.  usage: devkani.py <regex> [harness_timeout_s]"""
import sys, os, re, shutil, importlib.util
HERE = os.path.dirname(os.path.abspath(__file__)); sys.path.insert(0, HERE)
import pvlib
spec = importlib.util.spec_from_file_location("registry", os.path.join(pvlib.VERIF, "contracts", "registry.py"))
reg = importlib.util.module_from_spec(spec); spec.loader.exec_module(reg)
pat = re.compile(sys.argv[1]); ht = int(sys.argv[2]) if len(sys.argv) > 2 else 600
obs = [o for o in reg.OBLIGATIONS if o["backend"] == "kani" and pat.search(o["id"])]
groups = {}
for o in obs: groups.setdefault(o["group"], []).append(o)
for g, os_ in groups.items():
    ws = "/var/tmp/pcdev/" + re.sub(r"\W+", "_", g)[:40] + "/ws"
    tgt = None
    if os.path.exists(ws + "/target"):
        tgt = ws + "/../target_keep"; shutil.rmtree(tgt, ignore_errors=True); shutil.move(ws + "/target", tgt)
    shutil.rmtree(ws, ignore_errors=True); os.makedirs(ws)
    pvlib.sh(["rsync", "-a", "--exclude", "target", "--exclude", ".git", pvlib.REPO + "/Cargo.toml", pvlib.REPO + "/Cargo.lock", pvlib.REPO + "/source", ws + "/"])
    if tgt: shutil.move(tgt, ws + "/target")
    prep = getattr(reg, "PREPARE", {}).get(g)
    if prep: prep(ws)
    pvlib.apply_kani_mods(ws, sorted(set(m for o in os_ for m in o["mods"])))
    res, raw, wall, rc = pvlib.run_kani_group(ws, os_[0]["pkg"], os_[0]["features"], sorted(set(o["harness"] for o in os_)), 7200, harness_timeout=ht)
    open("/var/tmp/pcdev/last.log", "w").write(raw)
    print("group", g, "wall %.0fs rc=%s" % (wall, rc))
    for o in os_:
        full, r = pvlib.find_result(res, o["harness"])
        if r is None: print("  %-40s NO RESULT" % o["id"]); continue
        print("  %-40s %-8s %6.1fs covers=%s %s" % (o["id"], r["status"], r["time_s"] or -1, r["covers"], "; ".join(c["desc"] for c in r["failed_checks"])[:200]))
    if not res: print(raw[-3000:])
