# Route V unit: postcard-dyn's private copies of the varint writers and zig-zag (source/postcard-dyn/src/ser.rs, mod varint)
# verified against THE SAME spec functions and THE SAME contract generator as postcard's own (unit `varint`):
# hence the dynamic and the static codec agree on every integer of every width.
import os, sys, importlib.util
_spec = importlib.util.spec_from_file_location("varint_unit", os.path.join(os.path.dirname(os.path.abspath(__file__)), "varint.py"))
_v = importlib.util.module_from_spec(_spec); _spec.loader.exec_module(_v)

F = "postcard-dyn/src/ser.rs"
W = [r"^mod varint$"]


def zz_item(name, bits):
    u = "u%d" % bits
    return dict(kind="fn", file=F, within=W, name="zig_zag_" + name, qual="postcard_dyn::ser::varint::zig_zag_" + name,
                sig="""        ensures
            n >= 0 ==> r as int == 2 * (n as int),        // @obl:C17.V.dyn.zz.enc_%(n)s
            n < 0 ==> r as int == -2 * (n as int) - 1,    // @obl:C17.V.dyn.zz.enc_%(n)s""" % {"n": name},
                inserts=[("fn:start", """        assert(n >= 0 ==> (((n << 1) ^ (n >> %(s)d)) as %(u)s) as int == 2 * (n as int)) by (bit_vector);
        assert(n < 0 ==> (((n << 1) ^ (n >> %(s)d)) as %(u)s) as int == -2 * (n as int) - 1) by (bit_vector);""" % {"s": bits - 1, "u": u})],
                obls=["C17.V.dyn.zz.enc_" + name])


UNIT = dict(
    name="dynvarint",
    prelude=["varint.rs"],
    items=[
        dict(kind="raw", name="<stubs>", text="".join(_v.per_width(n, b) for n, b in _v.WIDTHS)),
        dict(kind="fn", file=F, within=W, name="varint_max", qual="postcard_dyn::ser::varint::varint_max",
             sig="""    requires vstd::layout::size_of::<T>() <= 0x1000_0000
    ensures r == (vstd::layout::size_of::<T>() * 8 + 6) / 7   // @obl:C17.V.dyn.varint_max""",
             obls=["C17.V.dyn.varint_max"]),
    ] + [_v.fn_item(n, b, file=F, within=W, qual="postcard_dyn::ser::varint::", oblp=("C17.V.dyn.varint.varint_", "C17.V.dyn.varint.len_")) for n, b in _v.WIDTHS]
      + [zz_item(n, b) for n, b in [("i16", 16), ("i32", 32), ("i64", 64), ("i128", 128)]],
    trailer_parts=[(["varint_u16", "zig_zag_i16"], """
fn smoke_dynvarint() {
    let mut b16 = [0u8; 3];
    let r = varint_u16(300, &mut b16);
    assert(r@.len() <= 3);
    let z = zig_zag_i16(-1);
    assert(z == 1);
}
""")],
)
