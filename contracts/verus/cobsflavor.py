# Route V unit: the COBS modifier flavour of postcard (source/postcard/src/ser/flavors.rs: struct Cobs<B>, try_new, try_push, finalize)
# together with the pinned dependency's EncoderState (cobs 0.2.3 registry source), generic over ANY inner storage flavour that
# satisfies the storage contract below. Data-structure invariant + abstract view: the inner flavour's contents and the encoder
# state form the abstract machine M of specs/cobs.rs; try_new == init, try_push == push, finalize == finalize.
# With lemma cobs_flavor_correct this gives, for every message of every length: output == cobs(msg) ++ [0].
import os, importlib.util
_spec = importlib.util.spec_from_file_location("cobs_unit", os.path.join(os.path.dirname(os.path.abspath(__file__)), "cobs.py"))
_c = importlib.util.module_from_spec(_spec); _spec.loader.exec_module(_c)

F = "postcard/src/ser/flavors.rs"
COBS_IMPL = [r"^impl<B> Cobs<B> where"]
COBS_FLAVOR_IMPL = [r"^impl<B> Flavor for Cobs<B> where"]

TRAIT = """
pub enum Error { SerializeBufferFull, Other }
pub type Result<T> = ::core::result::Result<T, Error>;

// The storage contract Cobs relies on (what C05 proves for Slice / HVec / AllocVec): an append-only byte sequence with
// in-place update of already written positions. `set_at` stands for `IndexMut::index_mut(idx)` followed by a store (rewrite D11).
pub trait Flavor: Sized {
    type Output;
    spec fn view(&self) -> Seq<u8>;
    spec fn out_view(o: &Self::Output) -> Seq<u8>;
    fn try_push(&mut self, data: u8) -> (r: Result<()>)
        ensures
            r is Ok ==> final(self).view() == old(self).view().push(data),
            r is Err ==> final(self).view() == old(self).view();
    fn try_extend(&mut self, data: &[u8]) -> (r: Result<()>)
        ensures
            r is Ok ==> final(self).view() == old(self).view() + data@;
    fn set_at(&mut self, idx: usize, v: u8)
        requires idx < old(self).view().len()
        ensures final(self).view() == old(self).view().update(idx as int, v);
    fn finalize(self) -> (r: Result<Self::Output>)
        ensures r is Ok ==> Self::out_view(&r->Ok_0) == self.view();
    // A-size: no storage holds anywhere near usize::MAX bytes (keeps the encoder's code index from overflowing)
    proof fn lemma_size_bound(&self)
        ensures self.view().len() + 1024 < usize::MAX;
}
"""

UNIT = dict(
    name="cobsflavor",
    verus_args=["--rlimit", "60"],
    prelude=["cobs.rs"],
    items=[it for it in _c.UNIT["items"]] + [
        dict(kind="raw", name="<flavor-trait>", text=TRAIT),
        dict(kind="struct", file=F, name="Cobs",
             rewrites=[(r"B: Flavor \+ IndexMut<usize, Output = u8>,", "B: Flavor,", 1, 1)]),   # D11: IndexMut bound folded into the storage contract
        dict(kind="raw", name="<cobs-impl-open>", text="""
impl<B: Flavor> Cobs<B> {
    // abstract view: the inner storage's contents + the encoder state = the abstract machine
    pub closed spec fn machine(&self) -> M { self.cobs.machine(self.flav.view()) }
    // representation invariant
    pub closed spec fn wf(&self) -> bool { self.cobs.wf() && inv(self.machine()) }
"""),
        dict(kind="fn", file=F, within=COBS_IMPL, name="try_new", qual="postcard::ser::flavors::Cobs::try_new",
             rewrites=[(r"mut bee: B", "bee0: B", 1, 1),                                       # D13: `mut` parameter binding -> local `let mut`
                       (r"\.map_err\(\|_\| Error::SerializeBufferFull\)", "", 1, 1),          # D12: error-kind mapping dropped (irrelevant to C06)
                       (r"EncoderState::default\(\)", "EncoderState::default0()", 1, 1)],     # name of the extracted Default::default
             sig="""        requires bee0.view() =~= seq![]
        ensures r is Ok ==> (r->Ok_0).wf() && (r->Ok_0).machine() == init(),   // @obl:C06.V.flavor.try_new""",
             inserts=[("fn:start", "        let mut bee = bee0;")],
             obls=["C06.V.flavor.try_new"]),
        dict(kind="raw", name="<cobs-impl-mid>", text="}\nimpl<B: Flavor> Cobs<B> {\n"),
        dict(kind="fn", file=F, within=COBS_FLAVOR_IMPL, name="try_push", qual="postcard::ser::flavors::<impl Flavor for Cobs<B>>::try_push",
             rewrites=[(r"self\.flav\[(\w+)\] = (\w+);", r"self.flav.set_at(\1, \2);", 0, 9)],  # D11
             sig="""        requires old(self).wf()
        ensures r is Ok ==> final(self).wf() && final(self).machine() == push(old(self).machine(), data),   // @obl:C06.V.flavor.try_push""",
             inserts=[("fn:start", "        proof { self.flav.lemma_size_bound(); }")],
             obls=["C06.V.flavor.try_push"]),
        # OPTIONAL: `impl Flavor for Cobs<B>` has no try_extend override on the pinned tree (the trait default == byte-wise pushes is used).
        # If an override appears it must satisfy the trait's contract: extending with `data` == pushing its bytes one by one.
        dict(kind="fn", file=F, within=COBS_FLAVOR_IMPL, name="try_extend", optional=True, qual="postcard::ser::flavors::<impl Flavor for Cobs<B>>::try_extend",
             rewrites=[(r"self\.flav\[(\w+)\] = (\w+);", r"self.flav.set_at(\1, \2);", 0, 9)],
             sig="""        requires old(self).wf()
        ensures r is Ok ==> final(self).wf() && final(self).machine() == run(old(self).machine(), data@),   // @obl:C06.V.flavor.try_extend""",
             obls=["C06.V.flavor.try_extend"]),
        dict(kind="fn", file=F, within=COBS_FLAVOR_IMPL, name="finalize", qual="postcard::ser::flavors::<impl Flavor for Cobs<B>>::finalize",
             rewrites=[(r"self\.flav\[(\w+)\] = (\w+);", r"self.flav.set_at(\1, \2);", 0, 9),   # D11
                       (r"-> Result<Self::Output>", "-> Result<B::Output>", 1, 1),             # the method is extracted into an inherent impl
                       (r"fn finalize\(mut self\)", "fn finalize(self)", 1, 1),                # D13: `mut self` -> local `let mut this = self`
                       (r"\bself\.", "this.", 1, 99)],
             inserts=[("fn:start", "        let mut this = self;")],
             sig="""        requires self.wf()
        ensures r is Ok ==> B::out_view(&r->Ok_0) == finalize(self.machine()),   // @obl:C06.V.flavor.finalize""",
             obls=["C06.V.flavor.finalize"]),
        dict(kind="raw", name="<cobs-impl-close>", text="}\n"),
    ],
    trailer_parts=[(["default0", "push", "finalize", "try_new", "try_push"], """
// Whole-message theorem on the real flavour: pushing msg byte by byte into a fresh Cobs<B> and finalizing yields cobs(msg) ++ [0],
// for every inner storage B satisfying the storage contract and every message (when no push fails).
fn encode_all<B: Flavor>(bee: B, msg: &[u8]) -> (r: Result<B::Output>)
    requires bee.view() =~= seq![], msg.len() < 0x1000_0000_0000
    ensures r is Ok ==> B::out_view(&r->Ok_0) == cobs(msg@) + seq![0u8]   // @obl:C06.V.flavor.whole_message
{
    let mut c = match Cobs::try_new(bee) { Ok(c) => c, Err(e) => { return Err(e); } };
    let mut i: usize = 0;
    while i < msg.len()
        invariant
            i <= msg.len(), msg.len() < 0x1000_0000_0000, c.wf(),
            c.machine() == run(init(), msg@.subrange(0, i as int)),
            c.machine().out.len() <= 2 * i + 2,
        decreases msg.len() - i
    {
        let ghost before = c.machine();
        match c.try_push(msg[i]) { Ok(()) => {}, Err(e) => { return Err(e); } }
        proof {
            lemma_run_snoc(init(), msg@.subrange(0, i as int), msg@[i as int]);
            assert(msg@.subrange(0, i as int + 1) =~= msg@.subrange(0, i as int).push(msg@[i as int]));
        }
        i += 1;
    }
    proof {
        assert(msg@.subrange(0, i as int) =~= msg@);
        cobs_flavor_correct(msg@);
    }
    c.finalize()
}
""")],
    trailer_obls=["C06.V.flavor.whole_message"],
)
