# Route V unit: source/postcard/src/accumulator.rs  (CobsAccumulator::{new, feed, feed_ref, extend_unchecked})
F = "postcard/src/accumulator.rs"
IMPL = [r"^impl<const N: usize> CobsAccumulator<N>$"]

FEED_SIG = """        requires old(self).wf()
        ensures
            final(self).wf(),   // @obl:C09.V.acc.feed_ref.wf
            (outcome_of(r), remaining_of(r), final(self).view()) == acc_step::<T>(N as nat, old(self).view(), input@),   // @obl:C08.V.acc.feed_ref.strongest
            c08_conserve(input@, remaining_of(r)),   // @obl:C08.V.acc.feed_ref.conserve
            c08_frame_fits(N as nat, old(self).view(), input@, outcome_of(r), remaining_of(r), final(self).view()),   // @obl:C08.V.acc.feed_ref.frame_fits
            c08_append_fits(N as nat, old(self).view(), input@, outcome_of(r), remaining_of(r), final(self).view()),   // @obl:C08.V.acc.feed_ref.append_fits
            c09_reset(input@, final(self).view()),   // @obl:C09.V.acc.feed_ref.reset
            c09_overfull(N as nat, old(self).view(), input@, outcome_of(r), remaining_of(r)),   // @obl:C09.V.acc.feed_ref.overfull
            c09_progress(N as nat, input@, remaining_of(r), old(self).view().len(), final(self).view().len()),   // @obl:C09.V.acc.feed_ref.progress
"""

UNIT = dict(
    name="acc",
    prelude=["acc.rs"],
    items=[
        dict(kind="raw", name="<stubs>", text="""
pub enum Error { Bad }
pub type Result<T> = ::core::result::Result<T, Error>;

// D5: crate::from_bytes_cobs::<T>  (serde-generic; C08 is RELATIVE to frame decoding, which C06/C07 pin down)
#[verifier::external_body]
pub fn from_bytes_cobs<'a, T>(s: &'a mut [u8]) -> (r: Result<T>)
    ensures
        r is Ok ==> spec_from_bytes_cobs::<T>(old(s)@) == Some(r->Ok_0),
        r is Err ==> spec_from_bytes_cobs::<T>(old(s)@) is None,
{ unimplemented!() }

// D4: input.iter().position(|&i| i == 0)   (raw stub spec checked by Kani harness C08.K.stub.position_zero, slices <= 8)
#[verifier::external_body]
pub fn position_zero_raw(input: &[u8]) -> (r: Option<usize>)
    ensures
        match r { Some(n) => n < input.len() && input[n as int] == 0 && forall|j: int| 0 <= j < n ==> input[j] != 0,
                  None => forall|j: int| 0 <= j < input.len() ==> input[j] != 0 }
{ input.iter().position(|&i| i == 0) }
// verified wrapper: restates the result in terms of the spec function fz (first zero, or len), so that the body of feed_ref
// needs no proof code tied to the name of a local variable
pub fn position_zero(input: &[u8]) -> (r: Option<usize>)
    ensures
        match r { Some(n) => n as int == fz(input@) && fz(input@) < input@.len(), None => fz(input@) == input@.len() },
        0 <= fz(input@) <= input@.len(),
{
    let r = position_zero_raw(input);
    proof {
        fz_props(input@);
        match r { Some(n) => { fz_unique(input@, n as int); } None => { fz_unique(input@, input@.len() as int); } }
    }
    r
}

// Rust guarantees: no slice / array object is larger than isize::MAX bytes
#[verifier::external_body]
pub proof fn axiom_slice_len(s: &[u8]) ensures s.len() <= isize::MAX as usize {}
#[verifier::external_body]
pub proof fn axiom_array_len<const N: usize>(a: &[u8; N]) ensures N <= isize::MAX as usize {}

pub open spec fn outcome_of<T>(r: FeedResult<'_, T>) -> Outcome<T> {
    match r {
        FeedResult::Consumed => Outcome::Consumed,
        FeedResult::OverFull(_) => Outcome::OverFull,
        FeedResult::DeserError(_) => Outcome::DeserError,
        FeedResult::Success { data, remaining } => Outcome::Success(data),
    }
}
pub open spec fn remaining_of<T>(r: FeedResult<'_, T>) -> Seq<u8> {
    match r {
        FeedResult::Consumed => seq![],
        FeedResult::OverFull(s) => s@,
        FeedResult::DeserError(s) => s@,
        FeedResult::Success { data, remaining } => remaining@,
    }
}
"""),
        dict(kind="struct", file=F, name="CobsAccumulator"),
        dict(kind="enum", file=F, name="FeedResult"),
        dict(kind="raw", name="<impl-open>", text="""
impl<const N: usize> CobsAccumulator<N> {
    // representation invariant and abstract view (ghost)
    pub closed spec fn wf0(&self) -> bool { self.idx <= N }
    pub closed spec fn wf(&self) -> bool { self.wf0() && N <= isize::MAX as usize }
    pub closed spec fn view(&self) -> Seq<u8> { self.buf@.subrange(0, self.idx as int) }
"""),
        dict(kind="fn", file=F, within=IMPL, name="new", qual="postcard::accumulator::CobsAccumulator::new",
             rewrites=[(r"pub const fn new", "pub fn new", 1, 1)],   # Verus: proof blocks are not allowed in const fn
             sig="        ensures r.wf0(), r.view() =~= seq![]   // @obl:C09.V.acc.new",
             rename="new0", obls=["C09.V.acc.new"],
             wrap=("", """
    pub fn new_checked() -> (r: Self) ensures r.wf(), r.view() =~= seq![] {
        let r = Self::new0();
        proof { axiom_array_len(&r.buf); }
        r
    }"""),
             ),
        dict(kind="fn", file=F, within=IMPL, name="feed_ref", qual="postcard::accumulator::CobsAccumulator::feed_ref",
             rewrites=[
                 (r"where\s+T: Deserialize<'de>,", "", 1, 1),                                   # D6
                 (r"(\w+)\.iter\(\)\.position\(\|&(\w+)\| \2 == 0\)", r"position_zero(\1)", 1, 1),   # D4
                 (r"crate::from_bytes_cobs::<T>", "from_bytes_cobs::<T>", 1, 1),                  # D5
             ],
             sig=FEED_SIG,
             inserts=[("fn:start", """        proof {
            axiom_slice_len(input);
            fz_props(input@);
        }"""),
                      ],
             obls=["C09.V.acc.feed_ref.safe"]),
        dict(kind="fn", file=F, within=IMPL, name="extend_unchecked", qual="postcard::accumulator::CobsAccumulator::extend_unchecked",
             sig="""        requires old(self).wf(), old(self).idx + input.len() <= N
        ensures final(self).wf(), final(self).view() =~= old(self).view() + input@, final(self).idx == old(self).idx + input.len(),   // @obl:C08.V.acc.extend_unchecked""",
             obls=["C08.V.acc.extend_unchecked"]),
        dict(kind="fn", file=F, within=IMPL, name="feed", qual="postcard::accumulator::CobsAccumulator::feed",
             rewrites=[(r"where\s+T: for<'de> Deserialize<'de>,", "", 1, 1)],
             sig="""        requires old(self).wf()
        ensures final(self).wf(),
            (outcome_of(r), remaining_of(r), final(self).view()) == acc_step::<T>(N as nat, old(self).view(), input@),   // @obl:C08.V.acc.feed""",
             obls=["C08.V.acc.feed"]),
        dict(kind="raw", name="<impl-close>", text="}\n"),
    ],
    trailer_parts=[(["new0", "feed_ref", "feed", "extend_unchecked"], """
// The documented feed loop, as an exec driver: terminates for every N >= 1 (decreases on the C09 measure) and
// needs no precondition on the chunk (total). Only the contract of feed is used here, not its body.
fn documented_loop<const N: usize>(acc: &mut CobsAccumulator<N>, chunk: &[u8])
    requires old(acc).wf(), N >= 1
    ensures final(acc).wf()
{
    let mut window: &[u8] = chunk;
    while !window.is_empty()
        invariant acc.wf(), N >= 1
        decreases measure(N as nat, window@.len(), acc.view().len())
    {
        proof { lemma_progress::<u8>(N as nat, acc.view(), window@); }
        window = match acc.feed::<u8>(window) {
            FeedResult::Consumed => { let e: &[u8] = &[]; e }   // `break` in the documented loop
            FeedResult::OverFull(new_wind) => new_wind,
            FeedResult::DeserError(new_wind) => new_wind,
            FeedResult::Success { data, remaining } => remaining,
        };
    }
}

fn smoke_acc() {
    let mut a = CobsAccumulator::<8>::new_checked();
    let data: [u8; 3] = [1, 0, 2];
    let r = a.feed_ref::<u8>(&data);
    assert(a.wf());
}
""")],
    trailer_obls=["C09.L.acc.documented_loop"],
)
