# Route V unit: the real `impl ser::Serializer for &mut Serializer<F>` of source/postcard/src/ser/serializer.rs, method by method,
# GENERIC over any flavour satisfying the flavour contract, for ALL argument values (lengths and indices unbounded):
#     {out == pre}  serialize_X(v)  {Ok  ==>  out == pre ++ <wire bytes of v per spec/src/wire-format.md>}
# `out` is the abstract stream of bytes handed to the flavour (`view()`); for a storage flavour it is what gets stored, for a
# modifier (COBS, CRC) it is the plain encoding the modifier transforms (C06 / C10 take over from there).
# Callees proved elsewhere (the five varint writers: unit `varint`; zig_zag_iN: unit `zigzag`) appear with their real signature
# and that contract, body dropped (`assumed=`): modular verification sees only callee contracts anyway.
F = "postcard/src/ser/serializer.rs"
IMPL_INH = [r"^impl<F: Flavor> Serializer<F>$"]
IMPL_SER = [r"^impl<F> ser::Serializer for &mut Serializer<F>"]
MAXW = {"u16": 3, "u32": 5, "u64": 10, "u128": 19, "usize": 10}

D12 = (r"\s*\.map_err\(\|_\| Error::SerializeBufferFull\)", "", 0, 3)      # error kind irrelevant to C02 (C05 checks it with Kani)
RECV = (r"(fn \w+(?:<[^>]*>)?\s*\(\s*)self\b", r"\1&mut self", 1, 1)                        # D15: method of `&mut Serializer<F>` taken by value -> inherent `&mut self`
NAMES = [(r"_name: &'static str", "_name: &str", 0, 1), (r"_variant: &'static str", "_variant: &str", 0, 1)]


def push_varint(w):
    return dict(kind="fn", file=F, within=IMPL_INH, name="try_push_varint_" + w, qual="postcard::ser::serializer::Serializer::try_push_varint_" + w,
                rewrites=[(r"varint_max::<%s>\(\)" % w, str(MAXW[w]), 1, 1)],     # D18: the array length literal; varint_max::<T>() == ceil(bits/7) is C12.V.varint_max
                sig="""        ensures r is Ok ==> final(self).output.view() == old(self).output.view() + enc(§p1§ as nat),   // @obl:C02.V.emit.try_push_varint_%s""" % w,
                obls=["C02.V.emit.try_push_varint_" + w])


def method(name, ensures, extra_rewrites=(), inserts=(), generic=False):
    rw = [RECV, D12] + NAMES + list(extra_rewrites)
    if generic:
        rw += [(r"where\s+T: \?Sized \+ Serialize,", "where T: Serialize,", 1, 1)]
    return dict(kind="fn", file=F, within=IMPL_SER, name=name, qual="postcard::ser::serializer::<impl ser::Serializer for &mut Serializer<F>>::" + name,
                rewrites=rw, sig="        ensures " + ensures + ("   // @obl:C02.V.emit.%s" % name), inserts=list(inserts), obls=["C02.V.emit." + name])


OUT = "final(self).output.view() == old(self).output.view()"
COMPOUND = [(r"-> Result<Self::Serialize\w+>", "-> Result<()>", 1, 1), (r"Ok\(self\)", "Ok(())", 1, 1)]   # D16: the compound-state value is the serializer itself


# the seven compound-state impls (`impl<F> ser::SerializeX for &mut Serializer<F>`): every element / field / key / value appends exactly
# its own wire form (field names never reach the output), `end` appends nothing. Same method names in several impls -> renamed on extraction.
COMPOUND_IMPLS = [("SerializeSeq", "seq", ["serialize_element"]), ("SerializeTuple", "tuple", ["serialize_element"]),
                  ("SerializeTupleStruct", "tuple_struct", ["serialize_field"]), ("SerializeTupleVariant", "tuple_variant", ["serialize_field"]),
                  ("SerializeMap", "map", ["serialize_key", "serialize_value"]), ("SerializeStruct", "struct", ["serialize_field"]),
                  ("SerializeStructVariant", "struct_variant", ["serialize_field"])]
DEREF = (r"&mut \*\*self", "self", 1, 1)     # D15': `self` is `&mut &mut Serializer<F>` in the trait impl, `&mut Serializer<F>` in the inherent extraction


def compound_items(tr, short, fns):
    within = [r"^impl<F> ser::%s for &mut Serializer<F>" % tr]
    out = []
    for f in fns:
        new = "%s_%s" % (short, f)
        keyed = tr in ("SerializeStruct", "SerializeStructVariant")
        out.append(dict(kind="fn", file=F, within=within, name=f, rename=new,
                        qual="postcard::ser::serializer::<impl ser::%s for &mut Serializer<F>>::%s" % (tr, f),
                        rewrites=[DEREF, (r"where\s+T: \?Sized \+ Serialize,", "where T: Serialize,", 1, 1), (r"_key: &'static str", "_key: &str", 0, 1)],
                        sig="        ensures r is Ok ==> " + OUT + " + §p%d§.wire()   // @obl:C02.V.emit.%s" % (2 if keyed else 1, new),
                        obls=["C02.V.emit." + new]))
    new = "%s_end" % short
    out.append(dict(kind="fn", file=F, within=within, name="end", rename=new,
                    qual="postcard::ser::serializer::<impl ser::%s for &mut Serializer<F>>::end" % tr,
                    rewrites=[RECV], sig="        ensures r is Ok && " + OUT + "   // @obl:C02.V.emit." + new, obls=["C02.V.emit." + new]))
    return out

UNIT = dict(
    name="emit",
    prelude=["varint.rs"],
    items=[
        dict(kind="raw", name="<spec>", obls=["spec:emit"], text="""
pub type Result<T> = ::core::result::Result<T, Error>;

// the flavour contract on the abstract stream of bytes handed to the flavour (proved for Slice / HVec / AllocVec / the modifiers by Kani: C05, C20)
pub trait Flavor {
    spec fn view(&self) -> Seq<u8>;
    fn try_extend(&mut self, data: &[u8]) -> (r: Result<()>)
        ensures r is Ok ==> final(self).view() == old(self).view() + data@;
    fn try_push(&mut self, data: u8) -> (r: Result<()>)
        ensures r is Ok ==> final(self).view() == old(self).view().push(data);
    type Output;
    spec fn out_view(o: &Self::Output) -> Seq<u8>;       // what the finalized output stands for (the stored bytes; for Size, their number)
    fn finalize(self) -> (r: Result<Self::Output>)
        ensures r is Ok ==> Self::out_view(&r->Ok_0) == self.view();
}

// a serialisable value: whatever its impl is, on success it appends its wire form `wire()` (the induction hypothesis for
// option / newtype payloads; for user types this is A-serde + the per-kind contracts below)
pub trait Serialize {
    spec fn wire(&self) -> Seq<u8>;
    fn serialize<F: Flavor>(&self, s: &mut Serializer<F>) -> (r: Result<()>)
        ensures r is Ok ==> final(s).output.view() == old(s).output.view() + self.wire();
}

pub open spec fn zz(n: int) -> nat { if n >= 0 { (2 * n) as nat } else { (-2 * n - 1) as nat } }

// D17: str -> bytes (std): v.len() == v.as_bytes().len()
pub uninterp spec fn str_bytes(v: &str) -> Seq<u8>;
#[verifier::external_body]
pub fn str_len(v: &str) -> (r: usize) ensures r == str_bytes(v).len() { v.len() }
#[verifier::external_body]
pub fn str_as_bytes(v: &str) -> (r: &[u8]) ensures r@ == str_bytes(v) { v.as_bytes() }
"""),
        dict(kind="enum", file="postcard/src/error.rs", name="Error"),
        dict(kind="struct", file=F, name="Serializer"),
    ] + [
        dict(kind="fn", file="postcard/src/varint.rs", name="varint_" + w, qual="postcard::varint::varint_" + w, assumed="unit varint (C02.V.varint.varint_%s)" % w,
             rewrites=[(r"varint_max::<%s>\(\)" % w, str(MAXW[w]), 0, 2)],
             sig="    ensures r@ == enc(n as nat)") for w in ["u16", "u32", "u64", "u128", "usize"]
    ] + [
        dict(kind="fn", file=F, name="zig_zag_i%d" % b, qual="postcard::ser::serializer::zig_zag_i%d" % b, assumed="unit zigzag (C02.V.zz.enc_i%d)" % b,
             sig="    ensures r as int == zz(n as int)") for b in [16, 32, 64, 128]
    ] + [
        dict(kind="raw", name="<impl-open>", text="impl<F: Flavor> Serializer<F> {\n"),
    ] + [push_varint(w) for w in ["usize", "u128", "u64", "u32", "u16"]] + [
        method("serialize_u8", "r is Ok ==> " + OUT + " + seq![§p1§]"),
        method("serialize_bool", "r is Ok ==> " + OUT + " + seq![if §p1§ { 1u8 } else { 0u8 }]"),
    ] + [
        method("serialize_u%d" % b, "r is Ok ==> " + OUT + " + enc(§p1§ as nat)") for b in [16, 32, 64, 128]
    ] + [
        method("serialize_i%d" % b, "r is Ok ==> " + OUT + " + enc(zz(§p1§ as int))") for b in [16, 32, 64, 128]
    ] + [
        method("serialize_str", "r is Ok ==> " + OUT + " + enc(str_bytes(§p1§).len()) + str_bytes(§p1§)",
               extra_rewrites=[(r"(\w+)\.len\(\)", r"str_len(\1)", 1, 1), (r"(\w+)\.as_bytes\(\)", r"str_as_bytes(\1)", 1, 1)]),
        method("serialize_bytes", "r is Ok ==> " + OUT + " + enc(§p1§@.len()) + §p1§@"),
        method("serialize_none", "r is Ok ==> " + OUT + " + seq![0u8]"),
        method("serialize_some", "r is Ok ==> " + OUT + " + seq![1u8] + §p1§.wire()", generic=True,
               ),
        method("serialize_unit", "r is Ok && " + OUT),
        method("serialize_unit_struct", "r is Ok && " + OUT),
        method("serialize_unit_variant", "r is Ok ==> " + OUT + " + enc(§p2§ as nat)"),
        method("serialize_newtype_struct", "r is Ok ==> " + OUT + " + §p2§.wire()", generic=True),
        method("serialize_newtype_variant", "r is Ok ==> " + OUT + " + enc(§p2§ as nat) + §p4§.wire()", generic=True),
        method("serialize_seq", "r is Ok ==> §p1§ is Some && " + OUT + " + enc(§p1§->Some_0 as nat),\n            §p1§ is None ==> r is Err",
               extra_rewrites=COMPOUND),
        method("serialize_tuple", "r is Ok && " + OUT, extra_rewrites=COMPOUND),
        method("serialize_tuple_struct", "r is Ok && " + OUT, extra_rewrites=COMPOUND),
        method("serialize_tuple_variant", "r is Ok ==> " + OUT + " + enc(§p2§ as nat)", extra_rewrites=COMPOUND),
        method("serialize_map", "r is Ok ==> §p1§ is Some && " + OUT + " + enc(§p1§->Some_0 as nat),\n            §p1§ is None ==> r is Err",
               extra_rewrites=COMPOUND),
        method("serialize_struct", "r is Ok && " + OUT, extra_rewrites=COMPOUND),
        method("serialize_struct_variant", "r is Ok ==> " + OUT + " + enc(§p2§ as nat)", extra_rewrites=COMPOUND),
    ] + [it for tr, short, fns in COMPOUND_IMPLS for it in compound_items(tr, short, fns)] + [
        dict(kind="raw", name="<impl-close>", text="}\n"),
        # the entry point every to_* function goes through: a fresh Serializer over the given storage, the value's serialisation, finalize
        dict(kind="fn", file="postcard/src/ser/mod.rs", name="serialize_with_flavor", qual="postcard::ser::serialize_with_flavor",
             rewrites=[(r"T: Serialize \+ \?Sized,", "T: Serialize,", 1, 1), D12],
             sig="    ensures r is Ok ==> S::out_view(&r->Ok_0) == §p1§.view() + §p0§.wire()   // @obl:C02.V.emit.serialize_with_flavor",
             obls=["C02.V.emit.serialize_with_flavor"]),
    ],
)
