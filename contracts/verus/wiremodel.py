# Spec-level unit (no extracted code): lifts the per-kind contracts to values nested to any depth.
UNIT = dict(name="wiremodel", prelude=["wire_model.rs"], items=[], globals=[])
