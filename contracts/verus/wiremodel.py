# Spec-level unit (no extracted code): lifts the per-kind contracts to values nested to any depth.
# Length prefixes and variant indices are concrete: enc (specs/varint.rs) and the bit-form decoders dec_u64 / dec_u32 of the
# devarint unit, with the proved round-trip lemmas (devarint.roundtrip_lemmas) in place of the former hyp_len_* hypotheses.
import importlib.util as _ilu, os as _os
_sp = _ilu.spec_from_file_location('devarint', _os.path.join(_os.path.dirname(_os.path.abspath(__file__)), 'devarint.py'))
devarint = _ilu.module_from_spec(_sp)
_sp.loader.exec_module(devarint)

UNIT = dict(
    name="wiremodel",
    uses=["use vstd::arithmetic::div_mod::*;"],
    prelude=["varint.rs", "wire_model.rs"],
    items=[dict(kind="raw", name="<varint-dec-spec-and-roundtrip>", obls=["spec:devarint"],
                text="pub enum DecRes<T> { Ok(T, int), End, Bad }\n"
                     + "".join(devarint.spec_for(n, b) + devarint.roundtrip_lemmas(n, b) for n, b in [("u32", 32), ("u64", 64)]))],
    globals=["global size_of usize == 8;"],
)
