# Route V unit: source/postcard/src/varint.rs  (varint_max, max_of_last_byte, varint_{u16,u32,u64,u128,usize})
# Contracts are transcribed from spec/src/wire-format.md: the writer's result IS enc(n) (canonical LEB128)
# and fits in ceil(bits/7) bytes.

WIDTHS = [("u16", 16), ("u32", 32), ("u64", 64), ("u128", 128), ("usize", 64)]


def bound_table(name, bits):
    mx = (1 << bits) - 1
    k = (bits + 6) // 7
    rows = []
    for i in range(k):
        rows.append("if i == %d { 0x%x }" % (i, mx >> (7 * i)))
    return "pub open spec fn bound_%s(i: int) -> nat { %s else { 0 } }\n" % (name, " else ".join(rows))


def per_width(name, bits):
    k = (bits + 6) // 7
    t = bound_table(name, bits)
    # D3: stub for `X.to_le_bytes()[0]`; its spec is discharged by Kani harness C02.K.stub.le0_<w> (full domain).
    t += """
#[verifier::external_body]
pub fn le0_%(n)s(v: %(n)s) -> (r: u8)
    ensures r == (v & 0xff) as u8
{ v.to_le_bytes()[0] }

pub proof fn lem_step_%(n)s(value: %(n)s, i: int)
    requires 0 <= i < %(k)d, value as nat <= bound_%(n)s(i)
    ensures
        value < 128 ==> ((value & 0xff) as u8) == value as u8,
        value >= 128 ==> (((value & 0xff) as u8) | 0x80u8) == ((value as nat %% 128) + 128) as u8,
        (value >> 7) as nat == value as nat / 128,
        (value >> 7) as nat <= bound_%(n)s(i + 1),
        i == %(k)d - 1 ==> value < 128,
{
    assert(value < 128 ==> ((value & 0xff) as u8) == value as u8) by (bit_vector);
    assert((((value & 0xff) as u8) | 0x80u8) == ((value %% 128) + 128) as u8) by (bit_vector);
    assert((value >> 7) == value / 128) by (bit_vector);
}
""" % {"n": name, "k": k}
    return t


def fn_item(name, bits, file="postcard/src/varint.rs", within=None, qual="postcard::varint::", oblp=("C02.V.varint.varint_", "C12.V.varint.len_")):
    k = (bits + 6) // 7
    return dict(
        kind="fn", file=file, within=within, name="varint_" + name, qual=qual + "varint_" + name,
        expect_loops=1,
        rewrites=[
            # D3
            (r"value\.to_le_bytes\(\)\[0\]", "le0_%s(value)" % name, 1, 1),
            # D2
            (r"debug_assert_eq!\(value, 0\);", "", 1, 1),
        ],
        sig="""    ensures
        r@ == enc(n as nat),   // @obl:%(o1)s%(n)s
        r@.len() <= %(k)d,     // @obl:%(o2)s%(n)s""" % {"n": name, "k": k, "o1": oblp[0], "o2": oblp[1]},
        loops={0: """        invariant
            enc(n as nat) =~= out@.subrange(0, i as int) + enc(value as nat),
            value as nat <= bound_%(n)s(i as int),
            i < %(k)d,  // loop exit is unreachable: the last iteration always returns""" % {"n": name, "k": k}},
        inserts=[
            ("loop:0:start", """        proof { lem_step_%(n)s(value, i as int); }
        let ghost pre_out = out@;
        let ghost pre_val = value;""" % {"n": name}),
            ("before:return\\b", """            proof {
                assert(out@.subrange(0, i as int) =~= pre_out.subrange(0, i as int));
                assert(out@.subrange(0, i as int + 1) =~= out@.subrange(0, i as int) + enc(value as nat));
            }
"""),
            ("loop:0:end", """        proof {
            assert(enc(pre_val as nat) =~= seq![out@[i as int]] + enc(value as nat));
            assert(out@.subrange(0, i as int + 1) =~= pre_out.subrange(0, i as int) + seq![out@[i as int]]);
        }"""),
        ],
        obls=[oblp[0] + name],
    )


UNIT = dict(
    name="varint",
    prelude=["varint.rs"],
    items=[
        dict(kind="raw", name="<stubs>", text="".join(per_width(n, b) for n, b in WIDTHS)),
        dict(kind="fn", file="postcard/src/varint.rs", name="varint_max", qual="postcard::varint::varint_max",
             sig="""    requires vstd::layout::size_of::<T>() <= 0x1000_0000
    ensures r == (vstd::layout::size_of::<T>() * 8 + 6) / 7   // @obl:C12.V.varint_max""",
             obls=["C12.V.varint_max"]),
        dict(kind="fn", file="postcard/src/varint.rs", name="max_of_last_byte", qual="postcard::varint::max_of_last_byte",
             sig="""    requires vstd::layout::size_of::<T>() <= 0x1000_0000
    ensures
        (vstd::layout::size_of::<T>() * 8) % 7 == 0 ==> r == 0,     // @obl:C03.V.max_of_last_byte
        (vstd::layout::size_of::<T>() * 8) % 7 == 1 ==> r == 1,     // @obl:C03.V.max_of_last_byte
        (vstd::layout::size_of::<T>() * 8) % 7 == 2 ==> r == 3,     // @obl:C03.V.max_of_last_byte
        (vstd::layout::size_of::<T>() * 8) % 7 == 3 ==> r == 7,     // @obl:C03.V.max_of_last_byte
        (vstd::layout::size_of::<T>() * 8) % 7 == 4 ==> r == 15,    // @obl:C03.V.max_of_last_byte
        (vstd::layout::size_of::<T>() * 8) % 7 == 5 ==> r == 31,    // @obl:C03.V.max_of_last_byte
        (vstd::layout::size_of::<T>() * 8) % 7 == 6 ==> r == 63,    // @obl:C03.V.max_of_last_byte""",
             inserts=[("before:\\(1 << extra_bits\\)", """    assert(extra_bits < 7);
    assert((1u8 << 0u8) == 1u8 && (1u8 << 1u8) == 2u8 && (1u8 << 2u8) == 4u8 && (1u8 << 3u8) == 8u8 && (1u8 << 4u8) == 16u8 && (1u8 << 5u8) == 32u8 && (1u8 << 6u8) == 64u8) by (bit_vector);
""")],
             obls=["C03.V.max_of_last_byte"]),
    ] + [fn_item(n, b) for n, b in WIDTHS],
    trailer_parts=[
        (["varint_u16"], """
fn smoke_varint_u16() {
    let mut b16 = [0u8; 3];
    let r = varint_u16(300, &mut b16);
    assert(r@.len() <= 3);
}
"""),
        (["varint_u128"], """
fn smoke_varint_u128() {
    let mut b128 = [0u8; 19];
    let r2 = varint_u128(0, &mut b128);
    proof { lemma_enc_canonical(0); }
    assert(r2@ =~= seq![0u8]);
}
"""),
        (["varint_max", "max_of_last_byte"], """
fn smoke_varint_max() {
    let m = varint_max::<u32>();
    assert(m == 5);
    let l = max_of_last_byte::<u32>();
    assert(l == 15);
    let l64 = max_of_last_byte::<u64>();
    assert(l64 == 1);
}
"""),
    ],
)
