# Route V unit: the pinned dependency cobs 0.2.3 (registry source named by Cargo.lock): EncoderState::{default, push, finalize}
# plus the spec-level theorem that iterating the encoder step from try_new and finalizing yields cobs(msg) ++ [0].
E = "src/enc.rs"
UNIT = dict(
    name="cobs",
    verus_args=["--rlimit", "60"],
    prelude=["cobs.rs"],
    items=[
        dict(kind="struct", root="cobs", file=E, name="EncoderState"),
        dict(kind="enum", root="cobs", file=E, name="PushResult"),
        dict(kind="raw", name="<impl-open>", text="""
// what Cobs<B>::try_push does with a PushResult (cobs crate documentation of the three variants), on the abstract output
pub open spec fn apply(out: Seq<u8>, pr: PushResult) -> Seq<u8> {
    match pr {
        PushResult::AddSingle(b) => out.push(b),
        PushResult::ModifyFromStartAndSkip((idx, m)) => out.update(idx as int, m).push(0u8),
        PushResult::ModifyFromStartAndPushAndSkip((idx, m, b)) => out.update(idx as int, m).push(b).push(0u8),
    }
}
impl EncoderState {
    pub closed spec fn ci(&self) -> int { self.code_idx as int }
    pub closed spec fn n(&self) -> int { self.num_bt_sent as int }
    pub closed spec fn off(&self) -> int { self.offset_idx as int }
    // representation invariant of the encoder state
    pub open spec fn wf(&self) -> bool { 1 <= self.n() <= 254 && self.off() == self.n() }
    pub open spec fn machine(&self, out: Seq<u8>) -> M { M { out: out, ci: self.ci(), n: self.n() } }
"""),
        dict(kind="fn", root="cobs", file=E, within=[r"^impl Default for EncoderState$"], name="default", qual="cobs::EncoderState::default",
             sig="        ensures r.wf(), r.ci() == 0, r.n() == 1   // @obl:C06.V.cobs.encoder_default",
             rename="default0", obls=["C06.V.cobs.encoder_default"]),
        dict(kind="fn", root="cobs", file=E, within=[r"^impl EncoderState$"], name="push", qual="cobs::EncoderState::push",
             sig="""        requires old(self).wf(), old(self).ci() + 256 < usize::MAX   // (no usize overflow of the code index: outputs are < usize::MAX - 256 bytes)
        ensures
            final(self).wf(),   // @obl:C06.V.cobs.encoder_push
            final(self).ci() <= old(self).ci() + 255,   // @obl:C06.V.cobs.encoder_push
            // explicit form of the step (what Cobs<B>::try_push consumes)
            data == 0 ==> r == PushResult::ModifyFromStartAndSkip((old(self).ci() as usize, old(self).n() as u8)) && final(self).ci() == old(self).ci() + old(self).n() && final(self).n() == 1,   // @obl:C06.V.cobs.encoder_push
            data != 0 && old(self).n() < 254 ==> r == PushResult::AddSingle(data) && final(self).ci() == old(self).ci() && final(self).n() == old(self).n() + 1,   // @obl:C06.V.cobs.encoder_push
            data != 0 && old(self).n() == 254 ==> r == PushResult::ModifyFromStartAndPushAndSkip((old(self).ci() as usize, 0xFFu8, data)) && final(self).ci() == old(self).ci() + 255 && final(self).n() == 1,   // @obl:C06.V.cobs.encoder_push
            // the encoder step, applied to ANY output satisfying the machine invariant, is the abstract machine's push
            forall|out: Seq<u8>| inv(old(self).machine(out)) ==> #[trigger] final(self).machine(apply(out, r)) == push(old(self).machine(out), data),   // @obl:C06.V.cobs.encoder_push""",
             obls=["C06.V.cobs.encoder_push"]),
        dict(kind="fn", root="cobs", file=E, within=[r"^impl EncoderState$"], name="finalize", qual="cobs::EncoderState::finalize",
             sig="""        requires self.wf()
        ensures forall|out: Seq<u8>| inv(self.machine(out)) ==> #[trigger] out.update(r.0 as int, r.1).push(0u8) == finalize(self.machine(out)),   // @obl:C06.V.cobs.encoder_finalize
            r.0 as int == self.ci() && r.1 as int == self.n(),   // @obl:C06.V.cobs.encoder_finalize""",
             obls=["C06.V.cobs.encoder_finalize"]),
        dict(kind="raw", name="<impl-close>", text="}\n"),
    ],
    trailer_parts=[(["default0", "push", "finalize"], """
fn smoke_cobs() {
    let mut e = EncoderState::default0();
    let r = e.push(5);
    let r2 = e.push(0);
    let f = e.finalize();
}
""")],
)
