# Route V unit: the varint readers of postcard's Deserializer (source/postcard/src/de/deserializer.rs, try_take_varint_{u16,u32,u64,u128,usize}),
# generic over ANY deserialization flavour satisfying the flavour contract (the one Kani proves for de::Slice and IOReader):
# for every input stream the reader returns exactly what the wire-format decoder `dec_<w>` prescribes - value, number of bytes
# consumed (never one more), error kind - and has no overflow / out-of-range shift.  `dec_<w>` is the wire-format decoder of
# spec/src/wire-format.md in bit form (at most ceil(bits/7) bytes, 7 data bits per byte little-endian, last-byte limit);
# the same real function is compared with an independently written arithmetic reference by the Kani harness C03.K.de.take_<w>.
F = "postcard/src/de/deserializer.rs"
IMPL = [r"^impl<'de, F: Flavor<'de>> Deserializer<'de, F>$"]
WIDTHS = [("u16", 16), ("u32", 32), ("u64", 64), ("u128", 128)]


def spec_for(name, bits):
    k = (bits + 6) // 7
    lm = (1 << (bits % 7)) - 1
    return """
pub open spec fn dec_%(n)s_from(b: Seq<u8>, i: int, acc: %(n)s) -> DecRes<%(n)s>
    decreases %(k)d - i
{
    if i < 0 || i >= %(k)d { DecRes::Bad }                       // exceeds the maximum encoded length
    else if i >= b.len() { DecRes::End }                      // truncated
    else {
        let v = b[i];
        let acc2 = acc | (((v & 0x7F) as %(n)s) << ((7 * i) as %(n)s));      // seven data bits, little-endian groups
        if (v & 0x80) == 0 {
            if i == %(k)d - 1 && v > %(lm)d { DecRes::Bad }      // exceeds the maximum value of the type
            else { DecRes::Ok(acc2, i + 1) }
        } else { dec_%(n)s_from(b, i + 1, acc2) }
    }
}
pub open spec fn dec_%(n)s(b: Seq<u8>) -> DecRes<%(n)s> { dec_%(n)s_from(b, 0, 0) }
""" % {"n": name, "k": k, "lm": lm}



def roundtrip_lemmas(name, bits):
    """Verus lemmas tying the bit-form decoder dec_<w> (|, <<, &) to the arithmetic encoder enc (%, /):
    dec_<w>(enc(n) ++ rest) == Ok(n, |enc(n)|) for EVERY n of the type and every continuation of the stream."""
    k = (bits + 6) // 7
    lm = (1 << (bits % 7)) - 1
    steps = []
    for i in range(k):
        c = 7 * i
        P = 1 << c
        dmax = 128 if i < k - 1 else lm + 1
        steps.append("""    if i == %d {
        assert(pow128(%d) == 0x%x) by (compute_only);
        assert(acc < 0x%x%s && d < %d ==> (acc | (d << %d%s)) == add(acc, mul(d, 0x%x%s))) by (bit_vector);
    }""" % (i, i, P, P, name, dmax, c, name, P, name))
    return """
// one accumulation step of the bit-form decoder is addition of d * 128^i (no carries: acc < 128^i), and never overflows
proof fn lemma_step_%(n)s(acc: %(n)s, d: %(n)s, i: int)
    requires 0 <= i < %(k)d, (acc as nat) < pow128(i as nat), i < %(k)d - 1 ==> d < 128, i == %(k)d - 1 ==> d <= %(lm)d,
    ensures (acc | (d << ((7 * i) as %(n)s))) as nat == acc as nat + (d as nat) * pow128(i as nat),
            acc as nat + (d as nat) * pow128(i as nat) <= %(n)s::MAX
{
%(steps)s
}

proof fn lemma_byte_masks_%(n)s(v: u8)
    ensures v < 128 ==> (v & 0x80) == 0 && ((v & 0x7F) as %(n)s) == v as %(n)s,
            v >= 128 ==> (v & 0x80) != 0 && ((v & 0x7F) as %(n)s) == (v - 128) as %(n)s,
{
    assert(v < 128 ==> (v & 0x80) == 0 && (v & 0x7F) == v) by (bit_vector);
    assert(v >= 128 ==> (v & 0x80) != 0 && (v & 0x7F) == sub(v, 128)) by (bit_vector);
}

// generalised induction: decoding from byte i with the low 7*i bits of n already accumulated
proof fn lemma_dec_enc_from_%(n)s(n: nat, b: Seq<u8>, i: int, m: nat, acc: %(n)s)
    requires
        n <= %(n)s::MAX, 0 <= i < %(k)d,
        m == n / pow128(i as nat), acc as nat == n %% pow128(i as nat),
        i + enc(m).len() <= b.len(), b.subrange(i, i + enc(m).len()) =~= enc(m),
    ensures dec_%(n)s_from(b, i, acc) == DecRes::Ok(n as %(n)s, i + enc(m).len()),
    decreases %(k)d - i
{
    let p = pow128(i as nat);
    lemma_pow128_pos(i as nat);
    lemma_enc_len_pos(m);
    let v = b[i];
    assert(v == b.subrange(i, i + enc(m).len())[0]);
    assert(v == enc(m)[0]);
    lemma_byte_masks_%(n)s(v);
    lemma_fundamental_div_mod(n as int, p as int);
    assert((acc as nat) < p) by { lemma_mod_bound(n as int, p as int); }
    if i == %(k)d - 1 {
        assert(pow128(%(k1)d) == 0x%(plast)x) by (compute_only);
        assert(m <= %(lm)d) by (nonlinear_arith) requires m == n / p, p == 0x%(plast)x, n <= %(n)s::MAX;
    }
    if m < 128 {
        assert(enc(m) =~= seq![m as u8]);
        let d = (v & 0x7F) as %(n)s;
        assert(d as nat == m);
        lemma_step_%(n)s(acc, d, i);
        assert(n == m * p + n %% p) by (nonlinear_arith) requires n == p * (n / p) + n %% p, m == n / p;
        assert((d as nat) * p == m * p);
    } else {
        let t = enc(m / 128);
        let h = ((m %% 128) + 128) as u8;
        assert(enc(m) =~= seq![h] + t);
        assert(v == h);
        assert(i < %(k)d - 1);
        let d = (v & 0x7F) as %(n)s;
        assert(d as nat == m %% 128);
        lemma_step_%(n)s(acc, d, i);
        let acc2 = (acc | (d << ((7 * i) as %(n)s)));
        assert(pow128((i + 1) as nat) == 128 * p);
        lemma_breakdown(n as int, p as int, 128);
        lemma_div_denominator(n as int, p as int, 128);
        assert(p * 128 == 128 * p) by (nonlinear_arith);
        assert(acc2 as nat == n %% pow128((i + 1) as nat)) by (nonlinear_arith)
            requires acc2 as nat == acc as nat + (m %% 128) * p, acc as nat == n %% p, m == n / p,
                     (n as int) %% ((p * 128) as int) == (p as int) * (((n as int) / (p as int)) %% 128) + (n as int) %% (p as int),
                     pow128((i + 1) as nat) == 128 * p, p * 128 == 128 * p;
        assert(m / 128 == n / pow128((i + 1) as nat));
        assert(b.subrange(i + 1, i + 1 + t.len()) =~= t) by {
            assert forall|j: int| 0 <= j < t.len() implies b.subrange(i + 1, i + 1 + t.len())[j] == t[j] by {
                assert(b.subrange(i, i + enc(m).len())[j + 1] == enc(m)[j + 1]);
            }
        }
        lemma_dec_enc_from_%(n)s(n, b, i + 1, m / 128, acc2);
    }
}

// THE ROUND TRIP: the wire-format decoder reads back every value of the type from its encoding followed by anything,
// consuming exactly the encoding.
pub proof fn lemma_varint_roundtrip_%(n)s(n: %(n)s, rest: Seq<u8>)
    ensures dec_%(n)s(enc(n as nat) + rest) == DecRes::Ok(n, enc(n as nat).len() as int),   // @obl:C01.L.varint.roundtrip_%(n)s
{
    let b = enc(n as nat) + rest;
    assert(pow128(0) == 1) by (compute_only);
    assert((n as nat) / 1 == n as nat && (n as nat) %% 1 == 0);
    assert(b.subrange(0, enc(n as nat).len() as int) =~= enc(n as nat));
    lemma_dec_enc_from_%(n)s(n as nat, b, 0, n as nat, 0);
}
""" % dict(n=name, k=k, k1=k - 1, lm=lm, steps="\n".join(steps), plast=1 << (7 * (k - 1)))


def fn_item(name, bits):
    k = (bits + 6) // 7
    return dict(
        kind="fn", file=F, within=IMPL, name="try_take_varint_" + name, qual="postcard::de::deserializer::Deserializer::try_take_varint_" + name,
        expect_loops=1,
        sig="""        ensures
            matches_dec(r, old(self).flavor.rem(), final(self).flavor.rem(), dec_%(n)s(old(self).flavor.rem())),   // @obl:C03.V.de.take_%(n)s""" % {"n": name},
        loops={0: """            invariant
                0 <= i <= %(k)d,
                final_rem_ok(old(self).flavor.rem(), self.flavor.rem(), i as int),
                dec_%(n)s(old(self).flavor.rem()) == dec_%(n)s_from(old(self).flavor.rem(), i as int, out),""" % {"n": name, "k": k}},
        inserts=[("loop:0:start", """            proof {
                assert(7 * i < %(b)d);
                assert(varint_max_spec_%(n)s());
            }""" % {"n": name, "b": bits})],
        obls=["C03.V.de.take_" + name],
    )


UNIT = dict(
    name="devarint",
    uses=["use core::marker::PhantomData;", "use vstd::arithmetic::div_mod::*;"],
    prelude=["varint.rs"],
    items=[
        dict(kind="raw", name="<spec>", obls=["spec:devarint"], text="""
pub enum Error { DeserializeUnexpectedEnd, DeserializeBadVarint, Other }
pub type Result<T> = ::core::result::Result<T, Error>;
pub enum DecRes<T> { Ok(T, int), End, Bad }

// the deserialization flavour contract (proved for de::flavors::Slice and io::IOReader by Kani: C03.K.flavor.slice, C11.K.ioreader.contract)
pub trait Flavor<'de>: 'de {
    spec fn rem(&self) -> Seq<u8>;      // the unread input stream
    fn pop(&mut self) -> (r: Result<u8>)
        ensures
            old(self).rem().len() == 0 ==> r == Err::<u8, Error>(Error::DeserializeUnexpectedEnd) && final(self).rem() == old(self).rem(),
            old(self).rem().len() > 0 ==> r == Ok::<u8, Error>(old(self).rem()[0]) && final(self).rem() == old(self).rem().drop_first();
}

// after i successful pops the unread stream is the original one minus its first i bytes
pub open spec fn final_rem_ok(orig: Seq<u8>, now: Seq<u8>, i: int) -> bool {
    0 <= i <= orig.len() && now =~= orig.subrange(i, orig.len() as int)
}
// result / consumed bytes / error kind agree with the wire-format decoder
pub open spec fn matches_dec<T>(r: Result<T>, orig: Seq<u8>, now: Seq<u8>, want: DecRes<T>) -> bool {
    match want {
        DecRes::Ok(v, used) => r == Ok::<T, Error>(v) && final_rem_ok(orig, now, used),          // exactly `used` bytes consumed - not one more
        DecRes::End => r == Err::<T, Error>(Error::DeserializeUnexpectedEnd),
        DecRes::Bad => r == Err::<T, Error>(Error::DeserializeBadVarint),
    }
}
""" + "".join(spec_for(n, b) for n, b in WIDTHS) + "".join("""
pub open spec fn varint_max_spec_%(n)s() -> bool { true }
""" % {"n": n} for n, b in WIDTHS)),
        # the bit-form decoder is the inverse of the arithmetic encoder `enc` (specs/varint.rs) on every value of the type
        dict(kind="raw", name="<roundtrip-lemmas>", obls=["C01.L.varint.roundtrip_" + n for n, b in WIDTHS],
             text="".join(roundtrip_lemmas(n, b) for n, b in WIDTHS)),
        dict(kind="fn", file="postcard/src/varint.rs", name="varint_max", qual="postcard::varint::varint_max",
             sig="""    requires vstd::layout::size_of::<T>() <= 0x1000_0000
    ensures r == (vstd::layout::size_of::<T>() * 8 + 6) / 7""", obls=["C12.V.varint_max"]),
        dict(kind="fn", file="postcard/src/varint.rs", name="max_of_last_byte", qual="postcard::varint::max_of_last_byte",
             sig="""    requires vstd::layout::size_of::<T>() <= 0x1000_0000
    ensures
        (vstd::layout::size_of::<T>() * 8) % 7 == 1 ==> r == 1,
        (vstd::layout::size_of::<T>() * 8) % 7 == 2 ==> r == 3,
        (vstd::layout::size_of::<T>() * 8) % 7 == 4 ==> r == 15,""",
             inserts=[("before:\\(1 << extra_bits\\)", """    assert(extra_bits < 7);
    assert((1u8 << 0u8) == 1u8 && (1u8 << 1u8) == 2u8 && (1u8 << 2u8) == 4u8 && (1u8 << 3u8) == 8u8 && (1u8 << 4u8) == 16u8 && (1u8 << 5u8) == 32u8 && (1u8 << 6u8) == 64u8) by (bit_vector);
""")], obls=["C03.V.max_of_last_byte"]),
        dict(kind="struct", file=F, name="Deserializer"),
        dict(kind="raw", name="<impl-open>", text="impl<'de, F: Flavor<'de>> Deserializer<'de, F> {\n"),
    ] + [fn_item(n, b) for n, b in WIDTHS] + [
        dict(kind="fn", file=F, within=IMPL, name="try_take_varint_usize", nth=2, qual="postcard::de::deserializer::Deserializer::try_take_varint_usize (64-bit cfg branch)",
             rewrites=[(r"\.map\(\|u\| u as usize\)", "", 1, 1), (r"-> Result<usize>", "-> Result<u64>", 1, 1)],   # D14: closure map(|u| u as usize) dropped: identity on a 64-bit host
             sig="""        ensures
            matches_dec(r, old(self).flavor.rem(), final(self).flavor.rem(), dec_u64(old(self).flavor.rem())),   // @obl:C03.V.de.take_usize""",
             obls=["C03.V.de.take_usize"]),
        dict(kind="raw", name="<impl-close>", text="}\n"),
    ],
)
