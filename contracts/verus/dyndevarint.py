# Route V unit: postcard-dyn's private copies of the varint readers (source/postcard-dyn/src/de.rs, mod varint) against THE SAME
# bit-form wire-format decoder spec as postcard's own readers (unit `devarint`): the two codecs accept exactly the same varints,
# return the same values and consume the same number of bytes, for every input; no overflow / out-of-range shift (C18).
import os, importlib.util
_spec = importlib.util.spec_from_file_location("devarint_unit", os.path.join(os.path.dirname(os.path.abspath(__file__)), "devarint.py"))
_d = importlib.util.module_from_spec(_spec); _spec.loader.exec_module(_d)

F = "postcard-dyn/src/de.rs"
W = [r"^mod varint$"]


def fn_item(name, bits):
    k = (bits + 6) // 7
    return dict(
        kind="fn", file=F, within=W, name="try_take_varint_" + name, qual="postcard_dyn::de::varint::try_take_varint_" + name,
        expect_loops=1,
        sig="""        ensures
            dyn_matches(r, data@, dec_%(n)s(data@)),   // @obl:C17.V.dyn.de.take_%(n)s""" % {"n": name},
        loops={0: """            invariant
                0 <= i <= %(k)d,
                final_rem_ok(data@, rest@, i as int),
                dec_%(n)s(data@) == dec_%(n)s_from(data@, i as int, out),""" % {"n": name, "k": k}},
        inserts=[("loop:0:start", "            proof { assert(7 * i < %d); }" % bits)],
        obls=["C17.V.dyn.de.take_" + name],
    )


SPEC = _d.UNIT["items"][0]["text"]
# reuse the spec text but drop the flavour trait (postcard-dyn works on slices) and use postcard-dyn's own Error enum
SPEC = SPEC[SPEC.index("pub enum DecRes"):]
SPEC = SPEC[:SPEC.index("// the deserialization flavour contract")] + SPEC[SPEC.index("// after i successful pops"):]
SPEC = SPEC[:SPEC.index("// result / consumed bytes / error kind agree")] + SPEC[SPEC.index("pub open spec fn dec_u16_from"):]

UNIT = dict(
    name="dyndevarint",
    items=[
        dict(kind="enum", file=F, name="Error"),
        dict(kind="raw", name="<spec>", obls=["spec:devarint"], text=SPEC + """
// result, remainder and error kind agree with the wire-format decoder (postcard-dyn reports over-long / over-range as SchemaMismatch)
pub open spec fn dyn_matches<T>(r: ::core::result::Result<(T, &[u8]), Error>, orig: Seq<u8>, want: DecRes<T>) -> bool {
    match want {
        DecRes::Ok(v, used) => r is Ok && (r->Ok_0).0 == v && final_rem_ok(orig, (r->Ok_0).1@, used),
        DecRes::End => r is Err && (r->Err_0) is UnexpectedEndOfData,
        DecRes::Bad => r is Err && (r->Err_0) is SchemaMismatch,
    }
}
pub trait TakeExt {
    fn take_one(&self) -> (r: ::core::result::Result<(u8, &[u8]), Error>);
}
impl TakeExt for [u8] {
    // postcard-dyn's TakeExt::take_one (split_first): stubbed; its contract is checked on the real code by Kani C17.K.dyn.take_ext
    #[verifier::external_body]
    fn take_one(&self) -> (r: ::core::result::Result<(u8, &[u8]), Error>)
        ensures
            self@.len() == 0 ==> r is Err && (r->Err_0) is UnexpectedEndOfData,
            self@.len() > 0 ==> r is Ok && (r->Ok_0).0 == self@[0] && (r->Ok_0).1@ =~= self@.subrange(1, self@.len() as int),
    { unimplemented!() }
}
"""),
        dict(kind="fn", file="postcard-dyn/src/ser.rs", within=[r"^mod varint$"], name="varint_max", qual="postcard_dyn::ser::varint::varint_max",
             sig="""    requires vstd::layout::size_of::<T>() <= 0x1000_0000
    ensures r == (vstd::layout::size_of::<T>() * 8 + 6) / 7""", obls=["C17.V.dyn.varint_max"]),
        dict(kind="fn", file=F, within=W, name="max_of_last_byte", qual="postcard_dyn::de::varint::max_of_last_byte",
             sig="""    requires vstd::layout::size_of::<T>() <= 0x1000_0000
    ensures
        (vstd::layout::size_of::<T>() * 8) % 7 == 1 ==> r == 1,
        (vstd::layout::size_of::<T>() * 8) % 7 == 2 ==> r == 3,
        (vstd::layout::size_of::<T>() * 8) % 7 == 4 ==> r == 15,""",
             inserts=[("before:\\(1 << extra_bits\\)", """        assert(extra_bits < 7);
        assert((1u8 << 0u8) == 1u8 && (1u8 << 1u8) == 2u8 && (1u8 << 2u8) == 4u8 && (1u8 << 3u8) == 8u8 && (1u8 << 4u8) == 16u8 && (1u8 << 5u8) == 32u8 && (1u8 << 6u8) == 64u8) by (bit_vector);
""")], obls=["C17.V.dyn.de.max_of_last_byte"]),
    ] + [fn_item(n, b) for n, b in _d.WIDTHS],
)
