# Route V unit: the scalar / string / option / unit / newtype methods of the real `impl de::Deserializer for &mut Deserializer<F>`
# (source/postcard/src/de/deserializer.rs), GENERIC over any flavour meeting the deserialization-flavour contract and over ANY
# visitor, for every input stream of every length:
#     the method shows the visitor exactly the value the wire format prescribes for the bytes at the front of the stream,
#     consumes exactly those bytes (never one more), and otherwise fails with the error kind of the first violated rule.
# The visitor is abstract: `on_X(v)` is whatever it answers when shown v; the contract says r == §V§.on_X(<decoded value>).
# Callees proved elsewhere appear with their real signature and that contract (`assumed=`): try_take_varint_* (unit devarint),
# de_zig_zag_iN (unit zigzag).
import importlib.util as _ilu, os as _os
_sp = _ilu.spec_from_file_location('devarint', _os.path.join(_os.path.dirname(_os.path.abspath(__file__)), 'devarint.py'))
devarint = _ilu.module_from_spec(_sp)
_sp.loader.exec_module(devarint)

F = "postcard/src/de/deserializer.rs"
IMPL_INH = [r"^impl<'de, F: Flavor<'de>> Deserializer<'de, F>$"]
IMPL_DE = [r"^impl<'de, F: Flavor<'de>> de::Deserializer<'de> for &mut Deserializer<'de, F>$"]
RECV = (r"(fn \w+(?:<[^>]*>)?\s*\(\s*)self\b", r"\1&mut self", 1, 1)          # D15
NAME = (r"_name: &'static str", "_name: &str", 0, 1)
ORIG, NOW = "old(self).flavor.rem()", "final(self).flavor.rem()"
ERR = "Err::<V::Value, Error>(Error::%s)"


def method(name, ensures, extra=(), inserts=(), oblp="C03.V.dekind."):
    vpos = {"deserialize_unit_struct": 2, "deserialize_newtype_struct": 2, "deserialize_tuple": 2, "deserialize_tuple_struct": 3,
            "deserialize_struct": 3, "deserialize_enum": 3}.get(name, 1)
    ensures = ensures.replace("§V§", "§p%d§" % vpos)
    return dict(inserts=list(inserts), kind="fn", file=F, within=IMPL_DE, name=name, qual="postcard::de::deserializer::<impl de::Deserializer for &mut Deserializer<F>>::" + name,
                rewrites=[RECV, NAME] + list(extra), sig="        ensures\n" + ensures + "   // @obl:" + oblp + name, obls=[oblp + name])


def varint_kind(name, w, val):
    return method(name, """            match dec_%(w)s(%(o)s) {
                DecRes::Ok(v, used) => r == §V§.on_%(t)s(%(val)s) && final_rem_ok(%(o)s, %(n)s, used),
                DecRes::End => r == %(e1)s,
                DecRes::Bad => r == %(e2)s,
            },""" % dict(w=w, o=ORIG, n=NOW, t=name[len("deserialize_"):], val=val, e1=ERR % "DeserializeUnexpectedEnd", e2=ERR % "DeserializeBadVarint"))


# the n bytes after the count prefix, written the way the code takes them: first the prefix is consumed, then n bytes of what is left
BODY = "%s.subrange(used, %s.len() as int).subrange(0, n as int)" % (ORIG, ORIG)
LEN_PREFIXED = """            match dec_u64(%(o)s) {
                DecRes::Ok(n, used) =>
                    if used + n <= %(o)s.len() {
                        %(ok)s
                    } else { r == %(e1)s },
                DecRes::End => r == %(e1)s,
                DecRes::Bad => r == %(e2)s,
            },"""

NEXT_SIG = """        ensures
            old(self).len == 0 ==> r == Ok(None) && final(self).len == 0
                                   && final(self).deserializer.flavor.rem() == old(self).deserializer.flavor.rem(),
            old(self).len > 0 ==> final(self).len == old(self).len - 1
                                  && final(self).deserializer.flavor.rem() == §p1§.on_de(old(self).deserializer.flavor.rem()).1
                                  && match §p1§.on_de(old(self).deserializer.flavor.rem()).0 {
                                         Ok(v) => r == Ok(Some(v)),
                                         Err(e) => r == Err(e),
                                     },   // @obl:%(obl)s"""

VIS_SCALARS = ["bool", "i8", "i16", "i32", "i64", "i128", "u8", "u16", "u32", "u64", "u128"]

SPEC = """
pub type Result<T> = ::core::result::Result<T, Error>;
pub enum DecRes<T> { Ok(T, int), End, Bad }

// the deserialization flavour contract (proved for de::flavors::Slice and io::IOReader by Kani: C03.K.flavor.slice, C11.K.ioreader.contract)
pub trait Flavor<'de>: 'de {
    spec fn rem(&self) -> Seq<u8>;      // the unread input stream
    fn pop(&mut self) -> (r: Result<u8>)
        ensures
            old(self).rem().len() == 0 ==> r == Err::<u8, Error>(Error::DeserializeUnexpectedEnd) && final(self).rem() == old(self).rem(),
            old(self).rem().len() > 0 ==> r == Ok::<u8, Error>(old(self).rem()[0]) && final(self).rem() == old(self).rem().drop_first();
    fn try_take_n(&mut self, ct: usize) -> (r: Result<&'de [u8]>)
        ensures
            ct <= old(self).rem().len() ==> r is Ok && (r->Ok_0)@ == old(self).rem().subrange(0, ct as int)
                                            && final(self).rem() == old(self).rem().subrange(ct as int, old(self).rem().len() as int),
            ct > old(self).rem().len() ==> r == Err::<&[u8], Error>(Error::DeserializeUnexpectedEnd) && final(self).rem() == old(self).rem();
    // a flavour that knows how much input is left says so exactly (Slice: proved by Kani C03.K.flavor.slice); others answer None
    spec fn hint(&self) -> Option<usize>;
    proof fn lemma_hint(&self) ensures self.hint() is Some ==> self.hint()->Some_0 == self.rem().len();
    fn size_hint(&self) -> (r: Option<usize>) ensures r == self.hint();
}

// ANY visitor: on_X is whatever it answers when shown a value; for payload-carrying kinds its effect on the stream is a function of the stream
pub trait Visitor<'de>: Sized {
    type Value;
""" + "".join("""    spec fn on_%(t)s(self, v: %(t)s) -> Result<Self::Value>;
    fn visit_%(t)s(self, v: %(t)s) -> (r: Result<Self::Value>) ensures r == self.on_%(t)s(v);
""" % dict(t=t) for t in VIS_SCALARS) + """    spec fn on_bytes(self, v: Seq<u8>) -> Result<Self::Value>;
    fn visit_borrowed_bytes(self, v: &'de [u8]) -> (r: Result<Self::Value>) ensures r == self.on_bytes(v@);
    spec fn on_str(self, v: Seq<u8>) -> Result<Self::Value>;
    fn visit_borrowed_str(self, v: &'de str) -> (r: Result<Self::Value>) ensures r == self.on_str(str_bytes(v));
    spec fn on_none(self) -> Result<Self::Value>;
    fn visit_none(self) -> (r: Result<Self::Value>) ensures r == self.on_none();
    spec fn on_unit(self) -> Result<Self::Value>;
    fn visit_unit(self) -> (r: Result<Self::Value>) ensures r == self.on_unit();
    spec fn on_some(self, rem: Seq<u8>) -> (Result<Self::Value>, Seq<u8>);
    fn visit_some<F: Flavor<'de>>(self, d: &mut Deserializer<'de, F>) -> (r: Result<Self::Value>)
        ensures (r, final(d).flavor.rem()) == self.on_some(old(d).flavor.rem());
    spec fn on_newtype(self, rem: Seq<u8>) -> (Result<Self::Value>, Seq<u8>);
    fn visit_newtype_struct<F: Flavor<'de>>(self, d: &mut Deserializer<'de, F>) -> (r: Result<Self::Value>)
        ensures (r, final(d).flavor.rem()) == self.on_newtype(old(d).flavor.rem());
    // compound kinds: the visitor is handed an accessor announcing `len` elements over the rest of the stream
    spec fn on_seq(self, len: usize, rem: Seq<u8>) -> (Result<Self::Value>, Seq<u8>);
    fn visit_seq<'a, F: Flavor<'de>>(self, a: SeqAccess<'a, 'de, F>) -> (r: Result<Self::Value>)
        ensures (r, final(a.deserializer).flavor.rem()) == self.on_seq(a.len, old(a.deserializer).flavor.rem());
    spec fn on_map(self, len: usize, rem: Seq<u8>) -> (Result<Self::Value>, Seq<u8>);
    fn visit_map<'a, F: Flavor<'de>>(self, a: MapAccess<'a, 'de, F>) -> (r: Result<Self::Value>)
        ensures (r, final(a.deserializer).flavor.rem()) == self.on_map(a.len, old(a.deserializer).flavor.rem());
    spec fn on_enum(self, rem: Seq<u8>) -> (Result<Self::Value>, Seq<u8>);
    fn visit_enum<F: Flavor<'de>>(self, d: &mut Deserializer<'de, F>) -> (r: Result<Self::Value>)
        ensures (r, final(d).flavor.rem()) == self.on_enum(old(d).flavor.rem());
}

// ANY element / key / value seed: its effect is a function of the stream it is run on
pub trait DeserializeSeed<'de>: Sized {
    type Value;
    spec fn on_de(self, rem: Seq<u8>) -> (Result<Self::Value>, Seq<u8>);
    fn deserialize<F: Flavor<'de>>(self, d: &mut Deserializer<'de, F>) -> (r: Result<Self::Value>)
        ensures (r, final(d).flavor.rem()) == self.on_de(old(d).flavor.rem());
    // D20: a variant index reaches the seed through serde's `u32::into_deserializer()`; modelled as a method receiving the u32
    spec fn on_index(self, v: u32) -> Result<Self::Value>;
    fn deserialize_index(self, v: u32) -> (r: Result<Self::Value>) ensures r == self.on_index(v);
}

pub open spec fn final_rem_ok(orig: Seq<u8>, now: Seq<u8>, i: int) -> bool {
    0 <= i <= orig.len() && now =~= orig.subrange(i, orig.len() as int)
}
pub open spec fn matches_dec<T>(r: Result<T>, orig: Seq<u8>, now: Seq<u8>, want: DecRes<T>) -> bool {
    match want {
        DecRes::Ok(v, used) => r == Ok::<T, Error>(v) && final_rem_ok(orig, now, used),
        DecRes::End => r == Err::<T, Error>(Error::DeserializeUnexpectedEnd),
        DecRes::Bad => r == Err::<T, Error>(Error::DeserializeBadVarint),
    }
}
pub open spec fn unzz(n: nat) -> int { if n % 2 == 0 { (n / 2) as int } else { -((n / 2) as int) - 1 } }

// D17 / D19: str <-> bytes and UTF-8 validation are std's; `utf8_ok` is uninterpreted (std's from_utf8 accepts exactly well-formed UTF-8)
pub uninterp spec fn str_bytes(v: &str) -> Seq<u8>;
pub uninterp spec fn utf8_ok(b: Seq<u8>) -> bool;
#[verifier::external_body]
pub fn from_utf8_or_bad<'a>(b: &'a [u8]) -> (r: Result<&'a str>)
    ensures
        utf8_ok(b@) ==> r is Ok && str_bytes(r->Ok_0) == b@,
        !utf8_ok(b@) ==> r == Err::<&str, Error>(Error::DeserializeBadUtf8),
{ core::str::from_utf8(b).map_err(|_| Error::DeserializeBadUtf8) }
""" + "".join(devarint.spec_for(n, b) for n, b in devarint.WIDTHS)

# ---- closing the loop at contract level: what the emit unit's postconditions say was WRITTEN is, by these lemmas, exactly what the
# dekinds contracts say is SHOWN to the visitor - for every value, every length, every continuation of the stream.
RT = """
pub open spec fn zz(n: int) -> nat { if n >= 0 { (2 * n) as nat } else { (-2 * n - 1) as nat } }
pub proof fn lemma_rt_zigzag(n: int) ensures unzz(zz(n)) == n {}
""" + "".join("""
// serialize_i%(b)d writes enc(zz(v)); deserialize_i%(b)d shows unzz(dec_u%(b)d(..)) - the same v, consuming exactly the encoding
pub proof fn lemma_rt_i%(b)d(v: i%(b)d, rest: Seq<u8>)
    ensures
        zz(v as int) <= u%(b)d::MAX,
        match dec_u%(b)d(enc(zz(v as int)) + rest) {
            DecRes::Ok(u, used) => unzz(u as nat) as i%(b)d == v && used == enc(zz(v as int)).len(),
            _ => false,
        },   // @obl:C01.L.rt.i%(b)d
{
    lemma_rt_zigzag(v as int);
    lemma_varint_roundtrip_u%(b)d(zz(v as int) as u%(b)d, rest);
}
""" % dict(b=b) for b in [16, 32, 64, 128]) + """
// serialize_bytes / serialize_str write enc(len) ++ body; deserialize_bytes / deserialize_str show exactly that body and leave `rest`
pub proof fn lemma_rt_len_prefixed(b: Seq<u8>, rest: Seq<u8>)
    requires b.len() <= u64::MAX
    ensures
        match dec_u64(enc(b.len()) + b + rest) {
            DecRes::Ok(n, used) => n as nat == b.len() && used + n <= (enc(b.len()) + b + rest).len()
                && (enc(b.len()) + b + rest).subrange(used, (enc(b.len()) + b + rest).len() as int).subrange(0, n as int) == b
                && (enc(b.len()) + b + rest).subrange(used + n, (enc(b.len()) + b + rest).len() as int) == rest,
            _ => false,
        },   // @obl:C01.L.rt.len_prefixed
{
    let s = enc(b.len()) + b + rest;
    lemma_varint_roundtrip_u64(b.len() as u64, b + rest);
    assert(s =~= enc(b.len()) + (b + rest));
    let used = enc(b.len()).len() as int;
    assert(s.subrange(used, s.len() as int).subrange(0, b.len() as int) =~= b);
    assert(s.subrange(used + b.len(), s.len() as int) =~= rest);
}
"""

UNIT = dict(
    name="dekinds",
    uses=["use core::marker::PhantomData;", "use vstd::arithmetic::div_mod::*;"],
    prelude=["varint.rs"],
    items=[
        dict(kind="raw", name="<spec>", obls=["spec:dekinds"], text=SPEC),
        dict(kind="raw", name="<varint-roundtrip>", obls=["spec:devarint"], text="".join(devarint.roundtrip_lemmas(n, b) for n, b in devarint.WIDTHS)),
        dict(kind="raw", name="<rt-lemmas>", obls=["C01.L.rt.len_prefixed"] + ["C01.L.rt.i%d" % b for b in [16, 32, 64, 128]], text=RT),
        dict(kind="enum", file="postcard/src/error.rs", name="Error"),
        dict(kind="struct", file=F, name="Deserializer", rewrites=[(r"(\s)flavor: F", r"\1pub flavor: F", 1, 1), (r"(\s)_plt:", r"\1pub _plt:", 1, 1)]),   # visibility only: the abstract Visitor contract speaks about d.flavor.rem()
    ] + [
        dict(kind="fn", file=F, name="de_zig_zag_i%d" % b, qual="postcard::de::deserializer::de_zig_zag_i%d" % b, assumed="unit zigzag (C03.V.zz.dec_i%d)" % b,
             sig="    ensures r as int == unzz(n as nat)") for b in [16, 32, 64, 128]
    ] + [
        dict(kind="raw", name="<impl-open>", text="impl<'de, F: Flavor<'de>> Deserializer<'de, F> {\n"),
    ] + [
        dict(kind="fn", file=F, within=IMPL_INH, name="try_take_varint_" + w, qual="postcard::de::deserializer::Deserializer::try_take_varint_" + w,
             assumed="unit devarint (C03.V.de.take_%s)" % w,
             sig="        ensures matches_dec(r, %s, %s, dec_%s(%s))" % (ORIG, NOW, w, ORIG)) for w in ["u16", "u32", "u64", "u128"]
    ] + [
        dict(kind="fn", file=F, within=IMPL_INH, name="try_take_varint_usize", nth=2, qual="postcard::de::deserializer::Deserializer::try_take_varint_usize (64-bit cfg branch)",
             assumed="unit devarint (C03.V.de.take_usize)",
             sig="        ensures matches_dec(r, %s, %s, match dec_u64(%s) { DecRes::Ok(v, u) => DecRes::Ok(v as usize, u), DecRes::End => DecRes::End, DecRes::Bad => DecRes::Bad })" % (ORIG, NOW, ORIG)),
        method("deserialize_bool", """            %(o)s.len() == 0 ==> r == %(e1)s,
            %(o)s.len() > 0 && %(o)s[0] == 0 ==> r == §V§.on_bool(false) && final_rem_ok(%(o)s, %(n)s, 1),
            %(o)s.len() > 0 && %(o)s[0] == 1 ==> r == §V§.on_bool(true) && final_rem_ok(%(o)s, %(n)s, 1),
            %(o)s.len() > 0 && %(o)s[0] > 1 ==> r == %(e3)s,""" % dict(o=ORIG, n=NOW, e1=ERR % "DeserializeUnexpectedEnd", e3=ERR % "DeserializeBadBool")),
        method("deserialize_u8", """            %(o)s.len() == 0 ==> r == %(e1)s,
            %(o)s.len() > 0 ==> r == §V§.on_u8(%(o)s[0]) && final_rem_ok(%(o)s, %(n)s, 1),""" % dict(o=ORIG, n=NOW, e1=ERR % "DeserializeUnexpectedEnd")),
        method("deserialize_i8", """            %(o)s.len() == 0 ==> r == %(e1)s,
            %(o)s.len() > 0 ==> r == §V§.on_i8(%(o)s[0] as i8) && final_rem_ok(%(o)s, %(n)s, 1),""" % dict(o=ORIG, n=NOW, e1=ERR % "DeserializeUnexpectedEnd")),
    ] + [varint_kind("deserialize_u%d" % b, "u%d" % b, "v") for b in [16, 32, 64, 128]
    ] + [varint_kind("deserialize_i%d" % b, "u%d" % b, "unzz(v as nat) as i%d" % b) for b in [16, 32, 64, 128]
    ] + [
        method("deserialize_bytes", LEN_PREFIXED % dict(o=ORIG, e1=ERR % "DeserializeUnexpectedEnd", e2=ERR % "DeserializeBadVarint",
               ok="r == §V§.on_bytes(%s) && final_rem_ok(%s, %s, used + n)" % (BODY, ORIG, NOW))),
        method("deserialize_byte_buf", LEN_PREFIXED % dict(o=ORIG, e1=ERR % "DeserializeUnexpectedEnd", e2=ERR % "DeserializeBadVarint",
               ok="r == §V§.on_bytes(%s) && final_rem_ok(%s, %s, used + n)" % (BODY, ORIG, NOW))),
        method("deserialize_str", LEN_PREFIXED % dict(o=ORIG, e1=ERR % "DeserializeUnexpectedEnd", e2=ERR % "DeserializeBadVarint",
               ok="if utf8_ok(%(b)s) { r == §V§.on_str(%(b)s) && final_rem_ok(%(o)s, %(nw)s, used + n) } else { r == %(e)s }"
                  % dict(o=ORIG, b=BODY, nw=NOW, e=ERR % "DeserializeBadUtf8")),
               extra=[(r"core::str::from_utf8\((\w+)\)\s*\.map_err\(\|_\| Error::DeserializeBadUtf8\)", r"from_utf8_or_bad(\1)", 1, 1)]),   # D19
        method("deserialize_string", LEN_PREFIXED % dict(o=ORIG, e1=ERR % "DeserializeUnexpectedEnd", e2=ERR % "DeserializeBadVarint",
               ok="if utf8_ok(%(b)s) { r == §V§.on_str(%(b)s) && final_rem_ok(%(o)s, %(nw)s, used + n) } else { r == %(e)s }"
                  % dict(o=ORIG, b=BODY, nw=NOW, e=ERR % "DeserializeBadUtf8"))),
        method("deserialize_option", """            %(o)s.len() == 0 ==> r == %(e1)s,
            %(o)s.len() > 0 && %(o)s[0] == 0 ==> r == §V§.on_none() && final_rem_ok(%(o)s, %(n)s, 1),
            %(o)s.len() > 0 && %(o)s[0] == 1 ==> (r, %(n)s) == §V§.on_some(%(o)s.drop_first()),
            %(o)s.len() > 0 && %(o)s[0] > 1 ==> r == %(e3)s,""" % dict(o=ORIG, n=NOW, e1=ERR % "DeserializeUnexpectedEnd", e3=ERR % "DeserializeBadOption")),
        method("deserialize_unit", "            r == §V§.on_unit() && %s == %s," % (NOW, ORIG)),
        method("deserialize_unit_struct", "            r == §V§.on_unit() && %s == %s," % (NOW, ORIG)),
        method("deserialize_newtype_struct", "            (r, %s) == §V§.on_newtype(%s)," % (NOW, ORIG)),
        method("deserialize_seq", """            match dec_u64(%(o)s) {
                DecRes::Ok(n, used) => (r, %(n)s) == §V§.on_seq(n as usize, %(o)s.subrange(used, %(o)s.len() as int)),
                DecRes::End => r == %(e1)s,
                DecRes::Bad => r == %(e2)s,
            },""" % dict(o=ORIG, n=NOW, e1=ERR % "DeserializeUnexpectedEnd", e2=ERR % "DeserializeBadVarint")),
        method("deserialize_map", """            match dec_u64(%(o)s) {
                DecRes::Ok(n, used) => (r, %(n)s) == §V§.on_map(n as usize, %(o)s.subrange(used, %(o)s.len() as int)),
                DecRes::End => r == %(e1)s,
                DecRes::Bad => r == %(e2)s,
            },""" % dict(o=ORIG, n=NOW, e1=ERR % "DeserializeUnexpectedEnd", e2=ERR % "DeserializeBadVarint")),
        method("deserialize_tuple", "            (r, %s) == §V§.on_seq(§p1§, %s)," % (NOW, ORIG)),
        method("deserialize_tuple_struct", "            (r, %s) == §V§.on_seq(§p2§, %s)," % (NOW, ORIG)),
        method("deserialize_struct", "            (r, %s) == §V§.on_seq(§p2§@.len() as usize, %s)," % (NOW, ORIG),
               extra=[(r"fields: &'static \[&'static str\]", "fields: &[&str]", 1, 1)]),
        method("deserialize_enum", "            (r, %s) == §V§.on_enum(%s)," % (NOW, ORIG),
               extra=[(r"_variants: &'static \[&'static str\]", "_variants: &[&str]", 1, 1)]),
        dict(kind="fn", file=F, within=[r"^impl<'de, F: Flavor<'de>> serde::de::EnumAccess<'de> for &mut Deserializer<'de, F>$"], name="variant_seed",
             qual="postcard::de::deserializer::<impl serde::de::EnumAccess for &mut Deserializer<F>>::variant_seed",
             rewrites=[(r"(fn \w+[^(]*\(\s*)self\b", r"\1&mut self", 1, 1), (r"-> Result<\(V::Value, Self\)>", "-> Result<V::Value>", 1, 1), (r"Ok\(\((\w+), self\)\)", r"Ok(\1)", 1, 1),
                       (r"DeserializeSeed::deserialize\((\w+), (\w+)\.into_deserializer\(\)\)", r"DeserializeSeed::deserialize_index(\1, \2)", 1, 1)],   # D20
             sig="""        ensures
            match dec_u32(%(o)s) {
                DecRes::Ok(v, used) => r == §p1§.on_index(v) && final_rem_ok(%(o)s, %(n)s, used),
                DecRes::End => r == Err::<V::Value, Error>(Error::DeserializeUnexpectedEnd),
                DecRes::Bad => r == Err::<V::Value, Error>(Error::DeserializeBadVarint),
            },   // @obl:C03.V.dekind.variant_seed""" % dict(o=ORIG, n=NOW),
             obls=["C03.V.dekind.variant_seed"]),
        method("deserialize_any", "            r is Err,", oblp="C04.V.dekind."),
        method("deserialize_identifier", "            r is Err,", oblp="C04.V.dekind."),
        method("deserialize_ignored_any", "            r is Err,", oblp="C04.V.dekind."),
        dict(kind="raw", name="<impl-close>", text="}\n"),
        # the element accessors handed to the visitor: announce `len`, run each seed on the stream, count down
        dict(kind="struct", file=F, name="SeqAccess", rewrites=[(r"(\s)deserializer:", r"\1pub deserializer:", 1, 1), (r"(\s)len:", r"\1pub len:", 1, 1)], prefix="pub"),
        dict(kind="struct", file=F, name="MapAccess", rewrites=[(r"(\s)deserializer:", r"\1pub deserializer:", 1, 1), (r"(\s)len:", r"\1pub len:", 1, 1)], prefix="pub"),
        dict(kind="raw", name="<seqaccess-impl-open>", text="impl<'a, 'b: 'a, F: Flavor<'b>> SeqAccess<'a, 'b, F> {\n"),
        dict(kind="fn", file=F, within=[r"^impl<'a, 'b: 'a, F: Flavor<'b>> serde::de::SeqAccess<'b> for SeqAccess<'a, 'b, F>$"], name="next_element_seed",
             qual="postcard::de::deserializer::<impl serde::de::SeqAccess for SeqAccess<F>>::next_element_seed",
             sig=NEXT_SIG % dict(obl="C03.V.dekind.seq_next_element_seed"), obls=["C03.V.dekind.seq_next_element_seed"]),
        dict(kind="fn", file=F, within=[r"^impl<'a, 'b: 'a, F: Flavor<'b>> serde::de::SeqAccess<'b> for SeqAccess<'a, 'b, F>$"], name="size_hint",
             qual="postcard::de::deserializer::<impl serde::de::SeqAccess for SeqAccess<F>>::size_hint",
             sig="""        ensures
            old(self.deserializer).flavor.hint() is Some ==> (r is Some ==> r->Some_0 <= old(self.deserializer).flavor.rem().len()),   // @obl:C04.V.dekind.seq_size_hint
            r is Some ==> r->Some_0 == self.len,   // @obl:C04.V.dekind.seq_size_hint""",
             inserts=[("fn:start", "        proof { self.deserializer.flavor.lemma_hint(); }")],
             obls=["C04.V.dekind.seq_size_hint"]),
        dict(kind="raw", name="<seqaccess-impl-close>", text="}\n"),
        dict(kind="raw", name="<mapaccess-impl-open>", text="impl<'a, 'b: 'a, F: Flavor<'b>> MapAccess<'a, 'b, F> {\n"),
        dict(kind="fn", file=F, within=[r"^impl<'a, 'b: 'a, F: Flavor<'b>> serde::de::MapAccess<'b> for MapAccess<'a, 'b, F>$"], name="next_key_seed",
             qual="postcard::de::deserializer::<impl serde::de::MapAccess for MapAccess<F>>::next_key_seed",
             sig=NEXT_SIG % dict(obl="C03.V.dekind.map_next_key_seed"), obls=["C03.V.dekind.map_next_key_seed"]),
        dict(kind="fn", file=F, within=[r"^impl<'a, 'b: 'a, F: Flavor<'b>> serde::de::MapAccess<'b> for MapAccess<'a, 'b, F>$"], name="next_value_seed",
             qual="postcard::de::deserializer::<impl serde::de::MapAccess for MapAccess<F>>::next_value_seed",
             sig="""        ensures
            (r, final(self).deserializer.flavor.rem()) == §p1§.on_de(old(self).deserializer.flavor.rem()) && final(self).len == old(self).len,   // @obl:C03.V.dekind.map_next_value_seed""",
             obls=["C03.V.dekind.map_next_value_seed"]),
        dict(kind="raw", name="<mapaccess-impl-close>", text="}\n"),
    ],
)
