# Route V unit: source/postcard-schema/src/key/hash.rs -- both schema hashers against ONE specification.
#
# The specification is generated from the single table below (kind -> tag byte), transcribed from the
# "shuffled_primes" comment of hash.rs in the order the kinds are listed; 33 tags.
# Struct and enum type names are NOT part of the stream; field and variant names are.

LEAF = [("Bool", 0x11), ("I8", 0xC5), ("U8", 0x3D), ("I16", 0x1D), ("I32", 0x0D), ("I64", 0x0B), ("I128", 0x02),
        ("U16", 0x83), ("U32", 0xD3), ("U64", 0x13), ("U128", 0x8B), ("Usize", 0x6B), ("Isize", 0xAD),
        ("F32", 0xEF), ("F64", 0x71), ("Char", 0xC1), ("String", 0x25), ("ByteArray", 0x65), ("Unit", 0x47), ("Schema", 0xE5)]
T_OPTION, T_SEQ, T_TUPLE, T_MAP, T_ENUM = 0x6D, 0x03, 0xA7, 0x4F, 0xE9
S_UNIT, S_NEWTYPE, S_TUPLE, S_STRUCT = 0xBF, 0x9D, 0x05, 0x7F      # struct bodies
V_UNIT, V_NEWTYPE, V_TUPLE, V_STRUCT = 0xB5, 0xDF, 0xC7, 0x67      # variant bodies
ALL_TAGS = [t for _, t in LEAF] + [T_OPTION, T_SEQ, T_TUPLE, T_MAP, T_ENUM, S_UNIT, S_NEWTYPE, S_TUPLE, S_STRUCT, V_UNIT, V_NEWTYPE, V_TUPLE, V_STRUCT]
assert len(set(ALL_TAGS)) == 33

F = "postcard-schema/src/key/hash.rs"


def h(x):
    return "0x%02Xu8" % x


def spec_text():
    leaves_sv = ", ".join(n for n, _ in LEAF)
    st_leaf = "\n".join("        SV::%s => seq![%s]," % (n, h(t)) for n, t in LEAF)
    h_leaf = "\n".join("        SV::%s => fnv_step(s, %s)," % (n, h(t)) for n, t in LEAF)
    vs_leaf = "\n".join("        DataModelType::%s => SV::%s," % (n, n) for n, _ in LEAF)
    vo_leaf = "\n".join("        OwnedDataModelType::%s => SV::%s," % (n, n) for n, _ in LEAF)
    eq_leaf = "\n".join("        SV::%s => { fnv1(s, %s); }" % (n, h(t)) for n, t in LEAF)
    return """
// ================= abstract schema tree (ghost) =================
pub enum SV { %(leaves)s, Option(Box<SV>), Seq(Box<SV>), Tuple(Seq<SV>), Map { key: Box<SV>, val: Box<SV> },
              Struct { name: Seq<u8>, data: SD }, Enum { name: Seq<u8>, variants: Seq<SVar> } }
pub enum SD { Unit, Newtype(Box<SV>), Tuple(Seq<SV>), Struct(Seq<SNF>) }
pub struct SNF { pub name: Seq<u8>, pub ty: SV }
pub struct SVar { pub name: Seq<u8>, pub data: SD }

// ================= FNV-1a 64 =================
// opaque: the hasher proofs are structural; only hash_update needs the arithmetic. (With the definition visible, a wrong tag
// sends Z3 into nonlinear reasoning until the resource limit instead of producing a clean postcondition failure.)
#[verifier::opaque]
pub open spec fn fnv_step(s: u64, b: u8) -> u64 {
    (((s ^ (b as u64)) as int * 0x0000_0100_0000_01b3int) %% 0x1_0000_0000_0000_0000int) as u64
}
pub open spec fn fnv(s: u64, bytes: Seq<u8>) -> u64
    decreases bytes.len()
{
    if bytes.len() == 0 { s } else { fnv_step(fnv(s, bytes.drop_last()), bytes.last()) }
}
pub open spec fn FNV_BASIS() -> u64 { 0xcbf2_9ce4_8422_2325u64 }

pub proof fn fnv_concat(s: u64, a: Seq<u8>, b: Seq<u8>)
    ensures fnv(s, a + b) == fnv(fnv(s, a), b)
    decreases b.len()
{
    if b.len() == 0 { assert(a + b =~= a); }
    else {
        assert((a + b).drop_last() =~= a + b.drop_last());
        fnv_concat(s, a, b.drop_last());
    }
}
pub proof fn fnv1(s: u64, b: u8)
    ensures fnv(s, seq![b]) == fnv_step(s, b)
{
    assert(seq![b].drop_last() =~= Seq::<u8>::empty());
    assert(fnv(s, Seq::<u8>::empty()) == s);
}

// ================= the documented tag-and-name stream (declarative) =================
pub open spec fn st_ty(v: SV) -> Seq<u8>
    decreases v, 0int, 0int
{
    match v {
%(st_leaf)s
        SV::Option(i) => seq![%(T_OPTION)s] + st_ty(*i),
        SV::Seq(i) => seq![%(T_SEQ)s] + st_ty(*i),
        SV::Tuple(ts) => seq![%(T_TUPLE)s] + st_tys(ts, ts.len() as int),
        SV::Map { key, val } => seq![%(T_MAP)s] + st_ty(*key) + st_ty(*val),
        SV::Struct { name, data } => st_data(data, %(S_UNIT)s, %(S_NEWTYPE)s, %(S_TUPLE)s, %(S_STRUCT)s),     // the struct's own name is not hashed
        SV::Enum { name, variants } => seq![%(T_ENUM)s] + st_vars(variants, variants.len() as int),           // nor the enum's
    }
}
pub open spec fn st_data(d: SD, tu: u8, tn: u8, tt: u8, ts: u8) -> Seq<u8>
    decreases d, 0int, 0int
{
    match d {
        SD::Unit => seq![tu],
        SD::Newtype(t) => seq![tn] + st_ty(*t),
        SD::Tuple(xs) => seq![tt] + st_tys(xs, xs.len() as int),
        SD::Struct(fs) => seq![ts] + st_nfs(fs, fs.len() as int),
    }
}
pub open spec fn st_tys(ts: Seq<SV>, n: int) -> Seq<u8>
    decreases ts, 1int, n
{ if 0 < n <= ts.len() { st_tys(ts, n - 1) + st_ty(ts[n - 1]) } else { seq![] } }
pub open spec fn st_nfs(ts: Seq<SNF>, n: int) -> Seq<u8>
    decreases ts, 1int, n
{ if 0 < n <= ts.len() { st_nfs(ts, n - 1) + st_nf(ts[n - 1]) } else { seq![] } }
pub open spec fn st_vars(ts: Seq<SVar>, n: int) -> Seq<u8>
    decreases ts, 1int, n
{ if 0 < n <= ts.len() { st_vars(ts, n - 1) + st_var(ts[n - 1]) } else { seq![] } }
pub open spec fn st_nf(f: SNF) -> Seq<u8>
    decreases f, 0int, 0int
{ f.name + st_ty(f.ty) }
pub open spec fn st_var(v: SVar) -> Seq<u8>
    decreases v, 0int, 0int
{ v.name + st_data(v.data, %(V_UNIT)s, %(V_NEWTYPE)s, %(V_TUPLE)s, %(V_STRUCT)s) }

// key(path, schema) = FNV-1a-64(path bytes ++ tag stream), little-endian digest
pub open spec fn key_of(path: Seq<u8>, v: SV) -> u64 { fnv(FNV_BASIS(), path + st_ty(v)) }

// ================= fold-shaped mirror of the computation (what the code is verified against) =================
pub open spec fn h_ty(s: u64, v: SV) -> u64
    decreases v, 0int, 0int
{
    match v {
%(h_leaf)s
        SV::Option(i) => h_ty(fnv_step(s, %(T_OPTION)s), *i),
        SV::Seq(i) => h_ty(fnv_step(s, %(T_SEQ)s), *i),
        SV::Tuple(ts) => h_tys(fnv_step(s, %(T_TUPLE)s), ts, ts.len() as int),
        SV::Map { key, val } => h_ty(h_ty(fnv_step(s, %(T_MAP)s), *key), *val),
        SV::Struct { name, data } => h_data(s, data, %(S_UNIT)s, %(S_NEWTYPE)s, %(S_TUPLE)s, %(S_STRUCT)s),
        SV::Enum { name, variants } => h_vars(fnv_step(s, %(T_ENUM)s), variants, variants.len() as int),
    }
}
pub open spec fn h_data(s: u64, d: SD, tu: u8, tn: u8, tt: u8, ts: u8) -> u64
    decreases d, 0int, 0int
{
    match d {
        SD::Unit => fnv_step(s, tu),
        SD::Newtype(t) => h_ty(fnv_step(s, tn), *t),
        SD::Tuple(xs) => h_tys(fnv_step(s, tt), xs, xs.len() as int),
        SD::Struct(fs) => h_nfs(fnv_step(s, ts), fs, fs.len() as int),
    }
}
pub open spec fn h_tys(s: u64, ts: Seq<SV>, n: int) -> u64
    decreases ts, 1int, n
{ if 0 < n <= ts.len() { h_ty(h_tys(s, ts, n - 1), ts[n - 1]) } else { s } }
pub open spec fn h_nfs(s: u64, ts: Seq<SNF>, n: int) -> u64
    decreases ts, 1int, n
{ if 0 < n <= ts.len() { h_nf(h_nfs(s, ts, n - 1), ts[n - 1]) } else { s } }
pub open spec fn h_vars(s: u64, ts: Seq<SVar>, n: int) -> u64
    decreases ts, 1int, n
{ if 0 < n <= ts.len() { h_var(h_vars(s, ts, n - 1), ts[n - 1]) } else { s } }
pub open spec fn h_nf(s: u64, f: SNF) -> u64
    decreases f, 0int, 0int
{ h_ty(fnv(s, f.name), f.ty) }
pub open spec fn h_var(s: u64, v: SVar) -> u64
    decreases v, 0int, 0int
{ h_data(fnv(s, v.name), v.data, %(V_UNIT)s, %(V_NEWTYPE)s, %(V_TUPLE)s, %(V_STRUCT)s) }

// ================= fold == FNV over the declarative stream (C16.L.hash.stream) =================
pub proof fn eq_ty(s: u64, v: SV)
    ensures h_ty(s, v) == fnv(s, st_ty(v))
    decreases v, 0int, 0int
{
    match v {
%(eq_leaf)s
        SV::Option(i) => { fnv1(s, %(T_OPTION)s); eq_ty(fnv_step(s, %(T_OPTION)s), *i); fnv_concat(s, seq![%(T_OPTION)s], st_ty(*i)); }
        SV::Seq(i) => { fnv1(s, %(T_SEQ)s); eq_ty(fnv_step(s, %(T_SEQ)s), *i); fnv_concat(s, seq![%(T_SEQ)s], st_ty(*i)); }
        SV::Tuple(ts) => { fnv1(s, %(T_TUPLE)s); eq_tys(fnv_step(s, %(T_TUPLE)s), ts, ts.len() as int); fnv_concat(s, seq![%(T_TUPLE)s], st_tys(ts, ts.len() as int)); }
        SV::Map { key, val } => {
            fnv1(s, %(T_MAP)s);
            let s1 = fnv_step(s, %(T_MAP)s);
            eq_ty(s1, *key); eq_ty(h_ty(s1, *key), *val);
            fnv_concat(s, seq![%(T_MAP)s], st_ty(*key));
            fnv_concat(s, seq![%(T_MAP)s] + st_ty(*key), st_ty(*val));
        }
        SV::Struct { name, data } => { eq_data(s, data, %(S_UNIT)s, %(S_NEWTYPE)s, %(S_TUPLE)s, %(S_STRUCT)s); }
        SV::Enum { name, variants } => { fnv1(s, %(T_ENUM)s); eq_vars(fnv_step(s, %(T_ENUM)s), variants, variants.len() as int); fnv_concat(s, seq![%(T_ENUM)s], st_vars(variants, variants.len() as int)); }
    }
}
pub proof fn eq_data(s: u64, d: SD, tu: u8, tn: u8, tt: u8, ts: u8)
    ensures h_data(s, d, tu, tn, tt, ts) == fnv(s, st_data(d, tu, tn, tt, ts))
    decreases d, 0int, 0int
{
    match d {
        SD::Unit => { fnv1(s, tu); }
        SD::Newtype(t) => { fnv1(s, tn); eq_ty(fnv_step(s, tn), *t); fnv_concat(s, seq![tn], st_ty(*t)); }
        SD::Tuple(xs) => { fnv1(s, tt); eq_tys(fnv_step(s, tt), xs, xs.len() as int); fnv_concat(s, seq![tt], st_tys(xs, xs.len() as int)); }
        SD::Struct(fs) => { fnv1(s, ts); eq_nfs(fnv_step(s, ts), fs, fs.len() as int); fnv_concat(s, seq![ts], st_nfs(fs, fs.len() as int)); }
    }
}
pub proof fn eq_tys(s: u64, ts: Seq<SV>, n: int)
    ensures h_tys(s, ts, n) == fnv(s, st_tys(ts, n))
    decreases ts, 1int, n
{
    if 0 < n <= ts.len() { eq_tys(s, ts, n - 1); eq_ty(h_tys(s, ts, n - 1), ts[n - 1]); fnv_concat(s, st_tys(ts, n - 1), st_ty(ts[n - 1])); }
}
pub proof fn eq_nfs(s: u64, ts: Seq<SNF>, n: int)
    ensures h_nfs(s, ts, n) == fnv(s, st_nfs(ts, n))
    decreases ts, 1int, n
{
    if 0 < n <= ts.len() { eq_nfs(s, ts, n - 1); eq_nf(h_nfs(s, ts, n - 1), ts[n - 1]); fnv_concat(s, st_nfs(ts, n - 1), st_nf(ts[n - 1])); }
}
pub proof fn eq_vars(s: u64, ts: Seq<SVar>, n: int)
    ensures h_vars(s, ts, n) == fnv(s, st_vars(ts, n))
    decreases ts, 1int, n
{
    if 0 < n <= ts.len() { eq_vars(s, ts, n - 1); eq_var(h_vars(s, ts, n - 1), ts[n - 1]); fnv_concat(s, st_vars(ts, n - 1), st_var(ts[n - 1])); }
}
pub proof fn eq_nf(s: u64, f: SNF)
    ensures h_nf(s, f) == fnv(s, st_nf(f))
    decreases f, 0int, 0int
{ eq_ty(fnv(s, f.name), f.ty); fnv_concat(s, f.name, st_ty(f.ty)); }
pub proof fn eq_var(s: u64, v: SVar)
    ensures h_var(s, v) == fnv(s, st_var(v))
    decreases v, 0int, 0int
{
    eq_data(fnv(s, v.name), v.data, %(V_UNIT)s, %(V_NEWTYPE)s, %(V_TUPLE)s, %(V_STRUCT)s);
    fnv_concat(s, v.name, st_data(v.data, %(V_UNIT)s, %(V_NEWTYPE)s, %(V_TUPLE)s, %(V_STRUCT)s));
}

// names of structs and enums do not influence the stream (C16.L.hash.names)
pub proof fn lemma_type_names_ignored(n1: Seq<u8>, n2: Seq<u8>, d: SD, vs: Seq<SVar>)
    ensures st_ty(SV::Struct { name: n1, data: d }) == st_ty(SV::Struct { name: n2, data: d }),
            st_ty(SV::Enum { name: n1, variants: vs }) == st_ty(SV::Enum { name: n2, variants: vs }),
{}
""" % dict(leaves=leaves_sv, st_leaf=st_leaf, h_leaf=h_leaf, eq_leaf=eq_leaf,
           T_OPTION=h(T_OPTION), T_SEQ=h(T_SEQ), T_TUPLE=h(T_TUPLE), T_MAP=h(T_MAP), T_ENUM=h(T_ENUM),
           S_UNIT=h(S_UNIT), S_NEWTYPE=h(S_NEWTYPE), S_TUPLE=h(S_TUPLE), S_STRUCT=h(S_STRUCT),
           V_UNIT=h(V_UNIT), V_NEWTYPE=h(V_NEWTYPE), V_TUPLE=h(V_TUPLE), V_STRUCT=h(V_STRUCT)), vs_leaf, vo_leaf


SPEC, VS_LEAF, VO_LEAF = spec_text()

VIEWS = """
// ================= views of the two concrete schema representations =================
pub open spec fn view_s(t: &DataModelType) -> SV
    decreases t, 0int, 0int
{
    match t {
%(vs_leaf)s
        DataModelType::Option(i) => SV::Option(Box::new(view_s(i))),
        DataModelType::Seq(i) => SV::Seq(Box::new(view_s(i))),
        DataModelType::Tuple(ts) => SV::Tuple(view_s_tys(ts@, ts@.len() as int)),
        DataModelType::Map { key, val } => SV::Map { key: Box::new(view_s(key)), val: Box::new(view_s(val)) },
        DataModelType::Struct { name, data } => SV::Struct { name: name.spec_bytes(), data: view_s_data(data) },
        DataModelType::Enum { name, variants } => SV::Enum { name: name.spec_bytes(), variants: view_s_vars(variants@, variants@.len() as int) },
    }
}
pub open spec fn view_s_data(d: &Data) -> SD
    decreases d, 0int, 0int
{
    match d {
        Data::Unit => SD::Unit,
        Data::Newtype(t) => SD::Newtype(Box::new(view_s(t))),
        Data::Tuple(ts) => SD::Tuple(view_s_tys(ts@, ts@.len() as int)),
        Data::Struct(fs) => SD::Struct(view_s_nfs(fs@, fs@.len() as int)),
    }
}
pub open spec fn view_s_nf(f: &NamedField) -> SNF
    decreases f, 0int, 0int
{ SNF { name: f.name.spec_bytes(), ty: view_s(f.ty) } }
pub open spec fn view_s_var(v: &Variant) -> SVar
    decreases v, 0int, 0int
{ SVar { name: v.name.spec_bytes(), data: view_s_data(&v.data) } }
pub open spec fn view_s_tys(ts: Seq<&'static DataModelType>, n: int) -> Seq<SV>
    decreases ts, 1int, n
{ if 0 < n <= ts.len() { view_s_tys(ts, n - 1).push(view_s(ts[n - 1])) } else { seq![] } }
pub open spec fn view_s_nfs(ts: Seq<&'static NamedField>, n: int) -> Seq<SNF>
    decreases ts, 1int, n
{ if 0 < n <= ts.len() { view_s_nfs(ts, n - 1).push(view_s_nf(ts[n - 1])) } else { seq![] } }
pub open spec fn view_s_vars(ts: Seq<&'static Variant>, n: int) -> Seq<SVar>
    decreases ts, 1int, n
{ if 0 < n <= ts.len() { view_s_vars(ts, n - 1).push(view_s_var(ts[n - 1])) } else { seq![] } }

pub open spec fn view_o(t: &OwnedDataModelType) -> SV
    decreases t, 0int, 0int
{
    match t {
%(vo_leaf)s
        OwnedDataModelType::Option(i) => SV::Option(Box::new(view_o(i))),
        OwnedDataModelType::Seq(i) => SV::Seq(Box::new(view_o(i))),
        OwnedDataModelType::Tuple(ts) => SV::Tuple(view_o_tys(ts@, ts@.len() as int)),
        OwnedDataModelType::Map { key, val } => SV::Map { key: Box::new(view_o(key)), val: Box::new(view_o(val)) },
        OwnedDataModelType::Struct { name, data } => SV::Struct { name: name.spec_bytes(), data: view_o_data(data) },
        OwnedDataModelType::Enum { name, variants } => SV::Enum { name: name.spec_bytes(), variants: view_o_vars(variants@, variants@.len() as int) },
    }
}
pub open spec fn view_o_data(d: &OwnedData) -> SD
    decreases d, 0int, 0int
{
    match d {
        OwnedData::Unit => SD::Unit,
        OwnedData::Newtype(t) => SD::Newtype(Box::new(view_o(t))),
        OwnedData::Tuple(ts) => SD::Tuple(view_o_tys(ts@, ts@.len() as int)),
        OwnedData::Struct(fs) => SD::Struct(view_o_nfs(fs@, fs@.len() as int)),
    }
}
pub open spec fn view_o_nf(f: &OwnedNamedField) -> SNF
    decreases f, 0int, 0int
{ SNF { name: f.name.spec_bytes(), ty: view_o(&f.ty) } }
pub open spec fn view_o_var(v: &OwnedVariant) -> SVar
    decreases v, 0int, 0int
{ SVar { name: v.name.spec_bytes(), data: view_o_data(&v.data) } }
pub open spec fn view_o_tys(ts: Seq<OwnedDataModelType>, n: int) -> Seq<SV>
    decreases ts, 1int, n
{ if 0 < n <= ts.len() { view_o_tys(ts, n - 1).push(view_o(&ts[n - 1])) } else { seq![] } }
pub open spec fn view_o_nfs(ts: Seq<OwnedNamedField>, n: int) -> Seq<SNF>
    decreases ts, 1int, n
{ if 0 < n <= ts.len() { view_o_nfs(ts, n - 1).push(view_o_nf(&ts[n - 1])) } else { seq![] } }
pub open spec fn view_o_vars(ts: Seq<OwnedVariant>, n: int) -> Seq<SVar>
    decreases ts, 1int, n
{ if 0 < n <= ts.len() { view_o_vars(ts, n - 1).push(view_o_var(&ts[n - 1])) } else { seq![] } }

// prefix folds over a pushed view sequence: h_X(s, view(ts, n), k) for k <= n only depends on the first k elements
pub proof fn lem_view_len_s_tys(ts: Seq<&'static DataModelType>, n: int)
    requires 0 <= n <= ts.len()
    ensures view_s_tys(ts, n).len() == n, forall|k: int| 0 <= k < n ==> view_s_tys(ts, n)[k] == view_s(ts[k])
    decreases n
{ if n > 0 { lem_view_len_s_tys(ts, n - 1); } }
pub proof fn lem_view_len_s_nfs(ts: Seq<&'static NamedField>, n: int)
    requires 0 <= n <= ts.len()
    ensures view_s_nfs(ts, n).len() == n, forall|k: int| 0 <= k < n ==> view_s_nfs(ts, n)[k] == view_s_nf(ts[k])
    decreases n
{ if n > 0 { lem_view_len_s_nfs(ts, n - 1); } }
pub proof fn lem_view_len_s_vars(ts: Seq<&'static Variant>, n: int)
    requires 0 <= n <= ts.len()
    ensures view_s_vars(ts, n).len() == n, forall|k: int| 0 <= k < n ==> view_s_vars(ts, n)[k] == view_s_var(ts[k])
    decreases n
{ if n > 0 { lem_view_len_s_vars(ts, n - 1); } }
pub proof fn lem_view_len_o_tys(ts: Seq<OwnedDataModelType>, n: int)
    requires 0 <= n <= ts.len()
    ensures view_o_tys(ts, n).len() == n, forall|k: int| 0 <= k < n ==> view_o_tys(ts, n)[k] == view_o(&ts[k])
    decreases n
{ if n > 0 { lem_view_len_o_tys(ts, n - 1); } }
pub proof fn lem_view_len_o_nfs(ts: Seq<OwnedNamedField>, n: int)
    requires 0 <= n <= ts.len()
    ensures view_o_nfs(ts, n).len() == n, forall|k: int| 0 <= k < n ==> view_o_nfs(ts, n)[k] == view_o_nf(&ts[k])
    decreases n
{ if n > 0 { lem_view_len_o_nfs(ts, n - 1); } }
pub proof fn lem_view_len_o_vars(ts: Seq<OwnedVariant>, n: int)
    requires 0 <= n <= ts.len()
    ensures view_o_vars(ts, n).len() == n, forall|k: int| 0 <= k < n ==> view_o_vars(ts, n)[k] == view_o_var(&ts[k])
    decreases n
{ if n > 0 { lem_view_len_o_vars(ts, n - 1); } }

// C16.L.hash.agree: equal views => equal keys; and both equal FNV-1a over path ++ documented stream
pub proof fn lemma_keys_agree(path: Seq<u8>, t: &DataModelType, o: &OwnedDataModelType)
    requires view_s(t) == view_o(o)
    ensures h_ty(fnv(FNV_BASIS(), path), view_s(t)) == h_ty(fnv(FNV_BASIS(), path), view_o(o)),
            h_ty(fnv(FNV_BASIS(), path), view_s(t)) == key_of(path, view_s(t)),
{
    eq_ty(fnv(FNV_BASIS(), path), view_s(t));
    fnv_concat(FNV_BASIS(), path, st_ty(view_s(t)));
}
""" % dict(vs_leaf=VS_LEAF, vo_leaf=VO_LEAF)


def loop_block(kind, seqexpr, fold, lem):
    """annotations for one `while idx < X.len()` element loop: ghost capture, invariant, decreases"""
    return dict(
        before="let ghost s1_%s = state; proof { %s(%s@, %s@.len() as int); }" % (kind, lem, seqexpr, seqexpr),
        inv="""                    invariant idx <= %(x)s.len(), state == %(fold)s(s1_%(k)s, %(view)s, idx as int),
                        %(view)s.len() == %(x)s@.len(), forall|k: int| 0 <= k < %(x)s@.len() ==> %(view)s[k] == %(elem)s,
                    decreases %(x)s.len() - idx""",
    )


def hash_fn_static(name, ensures, loops):
    """loops: list of (seq var, fold fn, view fn name, elem view expr with {i})"""
    it = dict(kind="fn", file=F, within=[r"^mod fnv1a64$"], name=name, qual="postcard_schema::key::hash::fnv1a64::" + name,
              prefix="#[verifier::exec_allows_no_decreases_clause]", sig="        ensures " + ensures,
              obls=["C16.V.hash.static." + name], expect_loops=len(loops), loops={}, inserts=[])
    for k, (x, fold, viewfn, lem, elem) in enumerate(loops):
        # \u00a7seq\u00a7 / \u00a7ctr\u00a7 / \u00a7acc\u00a7 are replaced by the names found in the source loop (robust to renamed locals)
        view = "%s(\u00a7seq\u00a7@, \u00a7seq\u00a7@.len() as int)" % viewfn
        elem = elem.replace(x + "@", "\u00a7seq\u00a7@")
        it["inserts"].append(("loop:%d:before" % k, "let ghost s1_%d = \u00a7acc\u00a7; proof { %s(\u00a7seq\u00a7@, \u00a7seq\u00a7@.len() as int); }" % (k, lem)))
        it["loops"][k] = """                    invariant \u00a7ctr\u00a7 <= \u00a7seq\u00a7.len(), \u00a7acc\u00a7 == %(fold)s(s1_%(k)d, %(view)s, \u00a7ctr\u00a7 as int),
                        %(view)s.len() == \u00a7seq\u00a7@.len(), forall|j: int| 0 <= j < \u00a7seq\u00a7@.len() ==> (#[trigger] %(view)s[j]) == %(elem)s,
                    decreases \u00a7seq\u00a7.len() - \u00a7ctr\u00a7""" % dict(fold=fold, k=k, view=view, elem=elem)
    return it


def hash_fn_owned(name, ensures, loops):
    it = hash_fn_static(name, ensures, loops)
    it["within"] = [r"^mod fnv1a64_owned$"]
    it["qual"] = "postcard_schema::key::hash::fnv1a64_owned::" + name
    it["obls"] = ["C16.V.hash.owned." + name]
    return it


STATIC_FNS = [
    hash_fn_static("hash_sdm_type", "r == h_ty(\u00a7p0\u00a7, view_s(\u00a7p1\u00a7))   // @obl:C16.V.hash.static.hash_sdm_type", [
        ("ts", "h_tys", "view_s_tys", "lem_view_len_s_tys", "view_s(ts@[j])"),
        ("variants", "h_vars", "view_s_vars", "lem_view_len_s_vars", "view_s_var(variants@[j])")]),
    hash_fn_static("hash_struct", "r == h_data(\u00a7p0\u00a7, view_s_data(\u00a7p2\u00a7), %s, %s, %s, %s)   // @obl:C16.V.hash.static.hash_struct" % (h(S_UNIT), h(S_NEWTYPE), h(S_TUPLE), h(S_STRUCT)), [
        ("dmts", "h_tys", "view_s_tys", "lem_view_len_s_tys", "view_s(dmts@[j])"),
        ("nfs", "h_nfs", "view_s_nfs", "lem_view_len_s_nfs", "view_s_nf(nfs@[j])")]),
    hash_fn_static("hash_variant", "r == h_var(\u00a7p0\u00a7, view_s_var(\u00a7p1\u00a7))   // @obl:C16.V.hash.static.hash_variant", [
        ("ts", "h_tys", "view_s_tys", "lem_view_len_s_tys", "view_s(ts@[j])"),
        ("fields", "h_nfs", "view_s_nfs", "lem_view_len_s_nfs", "view_s_nf(fields@[j])")]),
    hash_fn_static("hash_named_field", "r == h_nf(\u00a7p0\u00a7, view_s_nf(\u00a7p1\u00a7))   // @obl:C16.V.hash.static.hash_named_field", []),
]
OWNED_FNS = [
    hash_fn_owned("hash_sdm_type_owned", "r == h_ty(\u00a7p0\u00a7, view_o(\u00a7p1\u00a7))   // @obl:C16.V.hash.owned.hash_sdm_type_owned", [
        ("ts", "h_tys", "view_o_tys", "lem_view_len_o_tys", "view_o(&ts@[j])"),
        ("variants", "h_vars", "view_o_vars", "lem_view_len_o_vars", "view_o_var(&variants@[j])")]),
    hash_fn_owned("hash_struct", "r == h_data(\u00a7p0\u00a7, view_o_data(\u00a7p2\u00a7), %s, %s, %s, %s)   // @obl:C16.V.hash.owned.hash_struct" % (h(S_UNIT), h(S_NEWTYPE), h(S_TUPLE), h(S_STRUCT)), [
        ("dmts", "h_tys", "view_o_tys", "lem_view_len_o_tys", "view_o(&dmts@[j])"),
        ("nfs", "h_nfs", "view_o_nfs", "lem_view_len_o_nfs", "view_o_nf(&nfs@[j])")]),
    hash_fn_owned("hash_variant", "r == h_var(\u00a7p0\u00a7, view_o_var(\u00a7p1\u00a7))   // @obl:C16.V.hash.owned.hash_variant", [
        ("ts", "h_tys", "view_o_tys", "lem_view_len_o_tys", "view_o(&ts@[j])"),
        ("fields", "h_nfs", "view_o_nfs", "lem_view_len_o_nfs", "view_o_nf(&fields@[j])")]),
    hash_fn_owned("hash_named_field", "r == h_nf(\u00a7p0\u00a7, view_o_nf(\u00a7p1\u00a7))   // @obl:C16.V.hash.owned.hash_named_field", []),
]

UNIT = dict(
    name="hash",
    uses=["use vstd::string::StringSliceAdditionalSpecFns;"],
    items=[
        dict(kind="raw", name="<spec>", obls=["spec:hash"], text=SPEC),
        dict(kind="enum", file="postcard-schema/src/schema/mod.rs", name="DataModelType"),
        dict(kind="enum", file="postcard-schema/src/schema/mod.rs", name="Data"),
        dict(kind="struct", file="postcard-schema/src/schema/mod.rs", name="NamedField"),
        dict(kind="struct", file="postcard-schema/src/schema/mod.rs", name="Variant"),
        dict(kind="enum", file="postcard-schema/src/schema/owned.rs", name="OwnedDataModelType"),
        dict(kind="enum", file="postcard-schema/src/schema/owned.rs", name="OwnedData"),
        dict(kind="struct", file="postcard-schema/src/schema/owned.rs", name="OwnedNamedField"),
        dict(kind="struct", file="postcard-schema/src/schema/owned.rs", name="OwnedVariant"),
        dict(kind="raw", name="<views>", obls=["spec:hash"], text=VIEWS),
        dict(kind="struct", file=F, name="Fnv1a64Hasher"),
        dict(kind="raw", name="<hasher-impl-open>", text="impl Fnv1a64Hasher {\n    pub closed spec fn st(&self) -> u64 { self.state }\n"),
        dict(kind="const", file=F, name="BASIS"),
        dict(kind="const", file=F, name="PRIME"),
        dict(kind="fn", file=F, within=[r"^impl Fnv1a64Hasher$"], name="new", qual="postcard_schema::key::hash::Fnv1a64Hasher::new",
             sig="        ensures r.st() == FNV_BASIS()   // @obl:C16.V.fnv.hasher_new", obls=["C16.V.fnv.hasher_new"]),
        dict(kind="fn", file=F, within=[r"^impl Fnv1a64Hasher$"], name="digest", qual="postcard_schema::key::hash::Fnv1a64Hasher::digest",
             sig="        ensures r == self.st()   // @obl:C16.V.fnv.hasher_digest", obls=["C16.V.fnv.hasher_digest"]),
        dict(kind="raw", name="<hasher-impl-close>", text="}\n"),
        dict(kind="raw", name="<mod-static-open>", text="""
// D10: `T::SCHEMA` (associated const of the external trait `Schema`) is read through this stub
pub uninterp spec fn spec_schema_of<T: ?Sized>() -> &'static DataModelType;
#[verifier::external_body]
pub const fn schema_of<T: ?Sized>() -> (r: &'static DataModelType) ensures r == spec_schema_of::<T>() { unimplemented!() }
pub mod fnv1a64 {
    use super::*;
"""),
        dict(kind="fn", file=F, within=[r"^mod fnv1a64$"], name="hash_update", qual="postcard_schema::key::hash::fnv1a64::hash_update",
             expect_loops=1,
             sig="""        ensures r == fnv(\u00a7p0\u00a7, \u00a7p1\u00a7@),   // @obl:C16.V.fnv.hash_update
            \u00a7p1\u00a7@.len() == 1 ==> r == fnv_step(\u00a7p0\u00a7, \u00a7p1\u00a7@[0]),   // @obl:C16.V.fnv.hash_update""",
             inserts=[("loop:0:before", "let ghost s0 = \u00a7acc\u00a7;"),
                      ("loop:0:end", "proof { reveal(fnv_step); assert(\u00a7seq\u00a7@.subrange(0, \u00a7ctr\u00a7 as int).drop_last() =~= \u00a7seq\u00a7@.subrange(0, \u00a7ctr\u00a7 as int - 1)); }"),
                      ("loop:0:after", "proof { assert(\u00a7seq\u00a7@.subrange(0, \u00a7ctr\u00a7 as int) =~= \u00a7seq\u00a7@); if \u00a7seq\u00a7@.len() == 1 { fnv1(s0, \u00a7seq\u00a7@[0]); assert(\u00a7seq\u00a7@ =~= seq![\u00a7seq\u00a7@[0]]); } }")],
             loops={0: """            invariant \u00a7lenfact\u00a7, \u00a7ctr\u00a7 <= \u00a7seq\u00a7.len(), \u00a7acc\u00a7 == fnv(s0, \u00a7seq\u00a7@.subrange(0, \u00a7ctr\u00a7 as int)), Fnv1a64Hasher::PRIME == 0x0000_0100_0000_01b3u64,
            decreases \u00a7seq\u00a7.len() - \u00a7ctr\u00a7"""},
             obls=["C16.V.fnv.hash_update"]),
        dict(kind="fn", file=F, within=[r"^mod fnv1a64$"], name="hash_update_str", qual="postcard_schema::key::hash::fnv1a64::hash_update_str",
             sig="        ensures r == fnv(\u00a7p0\u00a7, \u00a7p1\u00a7.spec_bytes())   // @obl:C16.V.fnv.hash_update_str", obls=["C16.V.fnv.hash_update_str"]),
    ] + STATIC_FNS + [
        dict(kind="fn", file=F, within=[r"^mod fnv1a64$"], name="hash_ty_path", qual="postcard_schema::key::hash::fnv1a64::hash_ty_path",
             rewrites=[(r"\.to_le_bytes\(\)", "", 1, 1), (r"-> \[u8; 8\]", "-> u64", 1, 1),   # D3'
                       (r"T::SCHEMA", "schema_of::<T>()", 1, 1),                                 # D10: trait associated const
                       (r"<T: Schema \+ \?Sized>", "<T: ?Sized>", 1, 1)],
             sig="        ensures r == h_ty(fnv(FNV_BASIS(), \u00a7p0\u00a7.spec_bytes()), view_s(spec_schema_of::<T>()))   // @obl:C16.V.hash.static.hash_ty_path",
             obls=["C16.V.hash.static.hash_ty_path"]),
        dict(kind="raw", name="<mod-static-close>", text="}\n"),
        dict(kind="raw", name="<mod-owned-open>", text="pub mod fnv1a64_owned {\n    use super::*;\n    use super::fnv1a64::*;\n"),
        dict(kind="fn", file=F, within=[r"^mod fnv1a64_owned$"], name="hash_ty_path_owned", qual="postcard_schema::key::hash::fnv1a64_owned::hash_ty_path_owned",
             rewrites=[(r"\.to_le_bytes\(\)", "", 1, 1), (r"-> \[u8; 8\]", "-> u64", 1, 1)],   # D3': the final to_le_bytes() is dropped (checked by Kani C16.K.le_digest)
             sig="        ensures r == h_ty(fnv(FNV_BASIS(), \u00a7p0\u00a7.spec_bytes()), view_o(\u00a7p1\u00a7))   // @obl:C16.V.hash.owned.hash_ty_path_owned",
             obls=["C16.V.hash.owned.hash_ty_path_owned"]),
    ] + OWNED_FNS + [
        dict(kind="raw", name="<mod-owned-close>", text="}\n"),
    ],
    trailer_parts=[(["hash_update"], """
fn smoke_hash() {
    let s = fnv1a64::hash_update(0xcbf2_9ce4_8422_2325u64, &[0x11u8]);
    assert(s == fnv_step(0xcbf2_9ce4_8422_2325u64, 0x11u8));
}
""")],
)
