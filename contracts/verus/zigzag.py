# Route V unit: zig-zag of postcard (ser/serializer.rs zig_zag_iN, de/deserializer.rs de_zig_zag_iN) against the wire-format
# definition  n >= 0 -> 2n,  n < 0 -> -2n - 1,  and its inverse; plus the round-trip lemma.  by(bit_vector), all widths incl. 128.
def enc_item(name, bits):
    u = "u%d" % bits
    return dict(kind="fn", file="postcard/src/ser/serializer.rs", name="zig_zag_" + name, qual="postcard::ser::serializer::zig_zag_" + name,
                sig="""    ensures
        n >= 0 ==> r as int == 2 * (n as int),        // @obl:C02.V.zz.enc_%(n)s
        n < 0 ==> r as int == -2 * (n as int) - 1,    // @obl:C02.V.zz.enc_%(n)s""" % {"n": name},
                inserts=[("fn:start", """    assert(n >= 0 ==> (((n << 1) ^ (n >> %(s)d)) as %(u)s) as int == 2 * (n as int)) by (bit_vector);
    assert(n < 0 ==> (((n << 1) ^ (n >> %(s)d)) as %(u)s) as int == -2 * (n as int) - 1) by (bit_vector);""" % {"s": bits - 1, "u": u})],
                obls=["C02.V.zz.enc_" + name])


def dec_item(name, bits):
    i = "i%d" % bits
    return dict(kind="fn", file="postcard/src/de/deserializer.rs", name="de_zig_zag_" + name, qual="postcard::de::deserializer::de_zig_zag_" + name,
                sig="""    ensures
        n %% 2 == 0 ==> r as int == (n as int) / 2,            // @obl:C03.V.zz.dec_%(n)s
        n %% 2 == 1 ==> r as int == -((n as int) / 2) - 1,     // @obl:C03.V.zz.dec_%(n)s""" % {"n": name},
                inserts=[("fn:start", """    assert((n & 0b1) == 0 || (n & 0b1) == 1) by (bit_vector);
    assert((n & 0b1) == 0 <==> n %% 2 == 0) by (bit_vector);
    assert(forall|x: %(i)s| #![auto] (x ^ 0%(i)s) == x) by (bit_vector);
    assert(forall|x: %(i)s| #![auto] (x ^ !0%(i)s) == !x) by (bit_vector);
    assert((!0%(i)s) as int == -1) by (bit_vector);
    assert(n %% 2 == 0 ==> ((n >> 1) as %(i)s) as int == (n as int) / 2) by (bit_vector);
    assert(n %% 2 == 1 ==> (!((n >> 1) as %(i)s)) as int == -((n as int) / 2) - 1) by (bit_vector);""" % {"i": i})],
                obls=["C03.V.zz.dec_" + name])


W = [("i16", 16), ("i32", 32), ("i64", 64), ("i128", 128)]
UNIT = dict(
    name="zigzag",
    items=[enc_item(n, b) for n, b in W] + [dec_item(n, b) for n, b in W],
    trailer_parts=[(["zig_zag_%(n)s" % {"n": n}, "de_zig_zag_%(n)s" % {"n": n}], """
// C01: decoding the zig-zag of n gives n back, for every n (composition of the two contracts above)
fn roundtrip_%(n)s(n: %(n)s) -> (r: %(n)s)
    ensures r == n
{
    de_zig_zag_%(n)s(zig_zag_%(n)s(n))
}
""" % {"n": n}) for n, b in W],
    trailer_obls=["C01.V.zz.roundtrip"],
)
