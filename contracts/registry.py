# Obligation registry: every obligation, which property it is filed under and in which role.
#   role "D"  deciding   - transcription of the property statement (or implied by it): failure => VIOLATION
#   role "S"  supporting - stronger than the property; failure never alarms by itself (DESIGN.md s.2)
# label:  "unbounded" (Verus), "complete" (Kani, loop-free or width-bounded, full domain), "bounded(<what>)"
# tier:   "quick" obligations run in both tiers, "thorough" only in the thorough tier.

PC_FEATURES = "use-std,heapless,use-crc,experimental-derive"
REF = "postcard/src/lib.rs::verif_ref"

OBLIGATIONS = []


def K(id, mod, harness, props, label="complete", tier="quick", fns=(), pkg="postcard", features=PC_FEATURES,
      needs=(REF,), note="", timeout=None, group=None):
    OBLIGATIONS.append(dict(id=id, backend="kani", mods=[mod] + list(needs), harness=harness, props=props, label=label,
                            tier=tier, fns=list(fns), pkg=pkg, features=features, note=note, group=group or (pkg + "|" + features)))


def V(id, unit, fn, props, tier="quick", fns=(), witness=None, note="", label="unbounded", kind="V"):
    OBLIGATIONS.append(dict(id=id, backend="verus", unit=unit, fn=fn, props=props, label=label, tier=tier,
                            fns=list(fns), witness=witness, note=note, kind=kind))


W = ["u16", "u32", "u64", "u128", "usize"]
SW = ["i16", "i32", "i64", "i128"]

# ---------------------------------------------------------------- varint writers (varint.rs)
for w in W:
    V("C02.V.varint.varint_" + w, "varint", "varint_" + w, {"C02": "D", "C01": "S", "C12": "S"},
      fns=["postcard::varint::varint_" + w], witness="C02.K.varint.enc_" + w,
      note="r@ == enc(n): the real writer emits canonical LEB128 for every n (loop invariant, no bound)")
    V("C12.V.varint.len_" + w, "varint", "varint_" + w, {"C12": "D", "C05": "S"},
      fns=["postcard::varint::varint_" + w], witness="C02.K.varint.enc_" + w,
      note="|varint(n)| <= ceil(bits/7)")
    K("C02.K.varint.enc_" + w, "postcard/src/varint.rs::verif_varint", "verif_varint::enc_" + w,
      {"C02": "D", "C01": "S", "C12": "S"}, fns=["postcard::varint::varint_" + w],
      note="bit-precise witness of the same clause: all 2^bits values vs reference LEB128 (width-bounded loop, unwinding asserted)")
    K("C02.K.stub.le0_" + w, "postcard/src/varint.rs::verif_varint", "verif_varint::le0_" + w,
      {"C02": "S", "C12": "S"}, note="discharges the Route-V stub D3 (to_le_bytes()[0] == x & 0xff)")
V("C12.V.varint_max", "varint", "varint_max", {"C12": "D", "C02": "S", "C03": "S"}, fns=["postcard::varint::varint_max"],
  witness="C12.K.varint_max_table", note="varint_max::<T>() == ceil(8*size_of::<T>()/7) for every T")
V("C03.V.max_of_last_byte", "varint", "max_of_last_byte", {"C03": "S", "C12": "S"}, fns=["postcard::varint::max_of_last_byte"],
  witness="C12.K.varint_max_table", note="max_of_last_byte::<T>() == 2^(bits mod 7) - 1")
K("C12.K.varint_max_table", "postcard/src/varint.rs::verif_varint", "verif_varint::varint_max_table",
  {"C12": "D", "C03": "S", "C02": "S"}, fns=["postcard::varint::varint_max", "postcard::varint::max_of_last_byte"])
V("C02.L.varint.canonical", "varint", "lemma_enc_canonical", {"C02": "D"}, kind="L",
  note="enc(n) is canonical: continuation bit on all but the last byte, last byte non-zero unless n == 0")
V("C12.L.varint.len_bound", "varint", "lemma_enc_len_bound", {"C12": "D"}, kind="L",
  note="n < 128^k ==> |enc(n)| <= k")
V("C12.L.varint.len_lower", "varint", "lemma_enc_len_lower", {"C12": "D"}, kind="L",
  note="n >= 128^(k-1) ==> |enc(n)| >= k (tightness)")

# ---------------------------------------------------------------- zig-zag (serializer.rs / deserializer.rs)
for s in SW:
    K("C02.K.zz.enc_" + s, "postcard/src/ser/serializer.rs::verif_zz", "verif_zz::zz_" + s, {"C02": "D", "C01": "S"},
      fns=["postcard::ser::serializer::zig_zag_" + s], note="zig_zag(n) == (n>=0 ? 2n : -2n-1) for all n")
    K("C03.K.zz.dec_" + s, "postcard/src/de/deserializer.rs::verif_dec", "verif_dec::unzz_" + s, {"C03": "D", "C01": "S"},
      fns=["postcard::de::deserializer::de_zig_zag_" + s], note="de_zig_zag(u) == (u even ? u/2 : -(u+1)/2) for all u")
for w in W:
    K("C03.K.de.take_" + w, "postcard/src/de/deserializer.rs::verif_dec", "verif_dec::dec_" + w, {"C03": "D", "C01": "S", "C04": "S"},
      fns=["postcard::de::deserializer::Deserializer::try_take_varint_" + w],
      note="every byte string of length <= ceil(bits/7)+2 over de::Slice: accept/reject, value, consumed, error kind == wire-format decoder")

# ---------------------------------------------------------------- storage flavours (ser/flavors.rs)
SF = "postcard/src/ser/flavors.rs::verif_serflavor"
K("C05.K.slice.contract", SF, "verif_serflavor::slice_contract", {"C05": "D", "C01": "S", "C20": "S"},
  fns=["postcard::ser::flavors::Slice::new", "postcard::ser::flavors::Slice::try_push", "postcard::ser::flavors::Slice::try_extend", "postcard::ser::flavors::Slice::finalize"],
  note="Hoare triple over a symbolic window with guard bytes: Ok iff fits, BufferFull otherwise, finalize == written prefix, frame: every unwritten byte unchanged (loop-free, full domain)")
K("C05.K.slice.index", SF, "verif_serflavor::slice_index", {"C05": "S", "C06": "S"},
  fns=["postcard::ser::flavors::Slice::index", "postcard::ser::flavors::Slice::index_mut"],
  note="Index/IndexMut address exactly byte idx of the buffer; frame")
K("C05.K.hvec.contract", SF, "verif_serflavor::hvec_contract", {"C05": "D", "C20": "S"}, label="bounded(B=5, blocks<=4)",
  fns=["postcard::ser::flavors::HVec::try_push", "postcard::ser::flavors::HVec::try_extend", "postcard::ser::flavors::HVec::finalize"],
  note="HVec<5>: push/extend Err(BufferFull) iff it would exceed B, contents appended in order")
K("C05.K.size.contract", SF, "verif_serflavor::size_contract", {"C05": "D"},
  fns=["postcard::ser::flavors::Size::try_push", "postcard::ser::flavors::Size::try_extend", "postcard::ser::flavors::Size::finalize"],
  note="Size counts exactly (any prior count), never fails")
K("C20.K.flavor.default_extend", SF, "verif_serflavor::default_extend", {"C20": "D"}, label="bounded(block<=4)",
  fns=["postcard::ser::flavors::Flavor::try_extend (default)"],
  note="default try_extend == try_push per byte in order, stops at first error")

# ---------------------------------------------------------------- C01 round trip through the public API
PROBES = "postcard/src/lib.rs::verif_probes"
C01M = "postcard/src/lib.rs::verif_c01"
for k in ["bool", "i8", "u8", "i16", "u16", "i32", "u32", "i64", "u64", "i128", "u128", "usize", "isize", "char_1", "char_2", "char_3", "char_4", "unit", "option",
          "unit_struct", "newtype_struct", "tuple_struct", "tuple", "enum", "struct", "array", "f32", "f64"]:
    K("C01.K.kind." + k, C01M, "verif_c01::rt_" + k, {"C01": "D"}, needs=(REF, PROBES),
      fns=["postcard::to_slice", "postcard::take_from_bytes", "postcard::from_bytes", "postcard::ser::serializer (impl ser::Serializer)", "postcard::de::deserializer (impl de::Deserializer)"],
      note="take_from_bytes(to_slice(v) ++ tail) == Ok(v, tail) for EVERY value of the probe type (full domain)")
K("C01.K.kind.borrowed", C01M, "verif_c01::rt_borrowed", {"C01": "D"}, needs=(REF, PROBES), label="bounded(str/bytes len<=3)",
  note="struct with &str and &[u8] (serialize_bytes) fields round-trips; symbolic contents")
K("C01.K.kind.seq", C01M, "verif_c01::rt_seq", {"C01": "D"}, needs=(REF, PROBES), label="bounded(elements<=2)",
  note="heapless::Vec<u16,3> round-trips")
for e in ["to_vec", "to_extend", "to_allocvec", "to_io", "decoders"]:
    K("C01.K.entry." + e, C01M, "verif_c01::entry_" + e, {"C01": "D", "C11": "S"}, needs=(REF, PROBES),
      fns=["postcard::to_slice", "postcard::to_vec", "postcard::to_allocvec", "postcard::to_extend", "postcard::to_io", "postcard::from_bytes", "postcard::take_from_bytes", "postcard::from_io"],
      note="encode entry gives the same bytes as to_slice / the three decode entries agree, for every value of a probe type")

# ---------------------------------------------------------------- accumulator (accumulator.rs), Route V
ACCF = ["postcard::accumulator::CobsAccumulator::feed_ref"]
for c, what in [("conserve", "returned remainder is a suffix of the chunk: consumed ++ remainder == chunk"),
                ("frame_fits", "zero-terminated segment that fits: exactly the isolated decoding of view++segment, rest handed back, buffer reset"),
                ("append_fits", "unterminated piece that fits (incl. empty chunk): Consumed, buffered completely")]:
    V("C08.V.acc.feed_ref." + c, "acc", "CobsAccumulator::feed_ref", {"C08": "D"}, fns=ACCF, note=what)
V("C08.V.acc.feed_ref.strongest", "acc", "CobsAccumulator::feed_ref", {"C08": "S", "C09": "S"}, fns=ACCF,
  note="(outcome, remainder, view') == acc_step(N, view, input): strongest postcondition (also fixes which suffix is returned on overflow)")
V("C08.V.acc.extend_unchecked", "acc", "CobsAccumulator::extend_unchecked", {"C08": "S", "C09": "S"},
  fns=["postcard::accumulator::CobsAccumulator::extend_unchecked"], note="view' == view ++ input; slice range in bounds")
V("C08.V.acc.feed", "acc", "CobsAccumulator::feed", {"C08": "S", "C09": "S"}, fns=["postcard::accumulator::CobsAccumulator::feed"],
  note="feed is feed_ref (same strongest postcondition)")
V("C08.L.acc.clauses_determine_step", "acc", "lemma_c08_clauses_determine_step", {"C08": "D"}, kind="L",
  note="the three C08 clauses imply the strongest postcondition whenever the first piece fits")
V("C08.L.acc.chunking", "acc", "lemma_chunking", {"C08": "D"}, kind="L",
  note="chunking independence: run(view, a++b) == run(view,a) ++ run(view_after_a, b) for EVERY cut point (induction; all lengths)")
V("C08.L.acc.run_is_isolated", "acc", "lemma_run_is_isolated", {"C08": "D"}, kind="L",
  note="the reports equal decoding each zero-terminated segment in isolation")
V("C08.L.acc.one_result_per_zero", "acc", "lemma_one_result_per_zero", {"C08": "D"}, kind="L",
  note="exactly one report per zero byte")
for c, what in [("wf", "idx <= N preserved with no precondition on the chunk"),
                ("reset", "chunk contains a zero ==> buffer empty afterwards (initial state)"),
                ("overfull", "over-long segment ==> OverFull no later than the call that receives its sentinel; remainder after the sentinel"),
                ("progress", "N>=1: remainder strictly shorter, or equal with idx going N -> 0"),
                ("safe", "no index out of bounds, no arithmetic overflow/underflow, split_at / slicing preconditions hold (body obligations)")]:
    V("C09.V.acc.feed_ref." + c, "acc", "CobsAccumulator::feed_ref", {"C09": "D"}, fns=ACCF, note=what)
V("C09.V.acc.new", "acc", "CobsAccumulator::new0", {"C09": "D", "C08": "S"}, fns=["postcard::accumulator::CobsAccumulator::new"],
  note="new() is the initial state: empty view, idx <= N")
V("C09.L.acc.resync", "acc", "lemma_resync", {"C09": "D"}, kind="L", note="after any zero byte the state equals new()'s")
V("C09.L.acc.progress", "acc", "lemma_progress", {"C09": "D"}, kind="L", note="measure 2|rem| + [idx==N] strictly decreases per call when N >= 1")
V("C09.L.acc.documented_loop", "acc", "documented_loop", {"C09": "D"}, kind="L",
  note="exec driver of the documented feed loop verified with `decreases` against feed's contract: terminates for every N >= 1, any chunk")
