# Obligation registry: every obligation, which property it is filed under and in which role.
#   role "D"  deciding   - transcription of the property statement (or implied by it): failure => VIOLATION
#   role "S"  supporting - stronger than the property; failure never alarms by itself (DESIGN.md s.2)
# label:  "unbounded" (Verus), "complete" (Kani, loop-free or width-bounded, full domain), "bounded(<what>)"
# tier:   "quick" obligations run in both tiers, "thorough" only in the thorough tier.

PC_FEATURES = "use-std,heapless,use-crc,experimental-derive"
REF = "postcard/src/lib.rs::verif_ref"

OBLIGATIONS = []


def K(id, mod, harness, props, label="complete", tier="quick", fns=(), pkg="postcard", features=PC_FEATURES,
      needs=(REF,), note="", timeout=None, group=None):
    OBLIGATIONS.append(dict(id=id, backend="kani", mods=[mod] + list(needs), harness=harness, props=props, label=label,
                            tier=tier, fns=list(fns), pkg=pkg, features=features, note=note, group=group or (pkg + "|" + features)))


def V(id, unit, fn, props, tier="quick", fns=(), witness=None, note="", label="unbounded", kind="V"):
    OBLIGATIONS.append(dict(id=id, backend="verus", unit=unit, fn=fn, props=props, label=label, tier=tier,
                            fns=list(fns), witness=witness, note=note, kind=kind))


W = ["u16", "u32", "u64", "u128", "usize"]
SW = ["i16", "i32", "i64", "i128"]

# ---------------------------------------------------------------- varint writers (varint.rs)
for w in W:
    V("C02.V.varint.varint_" + w, "varint", "varint_" + w, {"C02": "D", "C01": "S", "C12": "S"},
      fns=["postcard::varint::varint_" + w], witness="C02.K.varint.enc_" + w,
      note="r@ == enc(n): the real writer emits canonical LEB128 for every n (loop invariant, no bound)")
    V("C12.V.varint.len_" + w, "varint", "varint_" + w, {"C12": "D", "C05": "S"},
      fns=["postcard::varint::varint_" + w], witness="C02.K.varint.enc_" + w,
      note="|varint(n)| <= ceil(bits/7)")
    K("C02.K.varint.enc_" + w, "postcard/src/varint.rs::verif_varint", "verif_varint::enc_" + w,
      {"C02": "D", "C01": "S", "C12": "S"}, fns=["postcard::varint::varint_" + w],
      note="bit-precise witness of the same clause: all 2^bits values vs reference LEB128 (width-bounded loop, unwinding asserted)")
    K("C02.K.stub.le0_" + w, "postcard/src/varint.rs::verif_varint", "verif_varint::le0_" + w,
      {"C02": "S", "C12": "S"}, note="discharges the Route-V stub D3 (to_le_bytes()[0] == x & 0xff)")
V("C12.V.varint_max", "varint", "varint_max", {"C12": "D", "C02": "S", "C03": "S"}, fns=["postcard::varint::varint_max"],
  witness="C12.K.varint_max_table", note="varint_max::<T>() == ceil(8*size_of::<T>()/7) for every T")
V("C03.V.max_of_last_byte", "varint", "max_of_last_byte", {"C03": "S", "C12": "S"}, fns=["postcard::varint::max_of_last_byte"],
  witness="C12.K.varint_max_table", note="max_of_last_byte::<T>() == 2^(bits mod 7) - 1")
K("C12.K.varint_max_table", "postcard/src/varint.rs::verif_varint", "verif_varint::varint_max_table",
  {"C12": "D", "C03": "S", "C02": "S"}, fns=["postcard::varint::varint_max", "postcard::varint::max_of_last_byte"])
V("C02.L.varint.canonical", "varint", "lemma_enc_canonical", {"C02": "D"}, kind="L",
  note="enc(n) is canonical: continuation bit on all but the last byte, last byte non-zero unless n == 0")
V("C12.L.varint.len_bound", "varint", "lemma_enc_len_bound", {"C12": "D"}, kind="L",
  note="n < 128^k ==> |enc(n)| <= k")
V("C12.L.varint.len_lower", "varint", "lemma_enc_len_lower", {"C12": "D"}, kind="L",
  note="n >= 128^(k-1) ==> |enc(n)| >= k (tightness)")

# ---------------------------------------------------------------- zig-zag (serializer.rs / deserializer.rs)
for s in SW:
    K("C02.K.zz.enc_" + s, "postcard/src/ser/serializer.rs::verif_zz", "verif_zz::zz_" + s, {"C02": "D", "C01": "S"},
      fns=["postcard::ser::serializer::zig_zag_" + s], note="zig_zag(n) == (n>=0 ? 2n : -2n-1) for all n")
    K("C03.K.zz.dec_" + s, "postcard/src/de/deserializer.rs::verif_dec", "verif_dec::unzz_" + s, {"C03": "D", "C01": "S"},
      fns=["postcard::de::deserializer::de_zig_zag_" + s], note="de_zig_zag(u) == (u even ? u/2 : -(u+1)/2) for all u")
for w in W:
    K("C03.K.de.take_" + w, "postcard/src/de/deserializer.rs::verif_dec", "verif_dec::dec_" + w, {"C03": "D", "C01": "S", "C04": "S"},
      fns=["postcard::de::deserializer::Deserializer::try_take_varint_" + w],
      note="every byte string of length <= ceil(bits/7)+2 over de::Slice: accept/reject, value, consumed, error kind == wire-format decoder")
