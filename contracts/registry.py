# Obligation registry: every obligation, which property it is filed under and in which role.
#   role "D"  deciding   - transcription of the property statement (or implied by it): failure => VIOLATION
#   role "S"  supporting - stronger than the property; failure never alarms by itself (DESIGN.md s.2)
# label:  "unbounded" (Verus), "complete" (Kani, loop-free or width-bounded, full domain), "bounded(<what>)"
# tier:   "quick" obligations run in both tiers, "thorough" only in the thorough tier.

PC_FEATURES = "use-std,heapless,use-crc,experimental-derive"
REF = "postcard/src/lib.rs::verif_ref"

OBLIGATIONS = []


def K(id, mod, harness, props, label="complete", tier="quick", fns=(), pkg="postcard", features=PC_FEATURES,
      needs=(REF,), note="", timeout=None, group=None):
    OBLIGATIONS.append(dict(id=id, backend="kani", mods=[mod] + list(needs), harness=harness, props=props, label=label,
                            tier=tier, fns=list(fns), pkg=pkg, features=features, note=note, group=group or (pkg + "|" + features)))


def V(id, unit, fn, props, tier="quick", fns=(), witness=None, note="", label="unbounded", kind="V"):
    OBLIGATIONS.append(dict(id=id, backend="verus", unit=unit, fn=fn, props=props, label=label, tier=tier,
                            fns=list(fns), witness=witness, note=note, kind=kind))


W = ["u16", "u32", "u64", "u128", "usize"]
SW = ["i16", "i32", "i64", "i128"]

# ---------------------------------------------------------------- varint writers (varint.rs)
for w in W:
    V("C02.V.varint.varint_" + w, "varint", "varint_" + w, {"C02": "D", "C01": "S", "C12": "S"},
      fns=["postcard::varint::varint_" + w], witness="C02.K.varint.enc_" + w,
      note="r@ == enc(n): the real writer emits canonical LEB128 for every n (loop invariant, no bound)")
    V("C12.V.varint.len_" + w, "varint", "varint_" + w, {"C12": "D", "C05": "S"},
      fns=["postcard::varint::varint_" + w], witness="C02.K.varint.enc_" + w,
      note="|varint(n)| <= ceil(bits/7)")
    K("C02.K.varint.enc_" + w, "postcard/src/varint.rs::verif_varint", "verif_varint::enc_" + w,
      {"C02": "D"}, fns=["postcard::varint::varint_" + w],
      note="bit-precise witness of the same clause: all 2^bits values vs reference LEB128 (width-bounded loop, unwinding asserted)")
    K("C02.K.stub.le0_" + w, "postcard/src/varint.rs::verif_varint", "verif_varint::le0_" + w,
      {"C02": "S", "C12": "S", "C01": "S"}, note="discharges the Route-V stub D3 (to_le_bytes()[0] == x & 0xff)")
V("C12.V.varint_max", "varint", "varint_max", {"C12": "D"}, fns=["postcard::varint::varint_max"],
  witness="C12.K.varint_max_table", note="varint_max::<T>() == ceil(8*size_of::<T>()/7) for every T")
V("C03.V.max_of_last_byte", "varint", "max_of_last_byte", {"C03": "S", "C12": "S"}, fns=["postcard::varint::max_of_last_byte"],
  witness="C12.K.varint_max_table", note="max_of_last_byte::<T>() == 2^(bits mod 7) - 1")
K("C12.K.varint_max_table", "postcard/src/varint.rs::verif_varint", "verif_varint::varint_max_table",
  {"C12": "D"}, fns=["postcard::varint::varint_max", "postcard::varint::max_of_last_byte"])
V("C02.L.varint.canonical", "varint", "lemma_enc_canonical", {"C02": "D"}, kind="L",
  note="enc(n) is canonical: continuation bit on all but the last byte, last byte non-zero unless n == 0")
V("C12.L.varint.len_bound", "varint", "lemma_enc_len_bound", {"C12": "D"}, kind="L",
  note="n < 128^k ==> |enc(n)| <= k")
V("C12.L.varint.len_lower", "varint", "lemma_enc_len_lower", {"C12": "D"}, kind="L",
  note="n >= 128^(k-1) ==> |enc(n)| >= k (tightness)")

# ---------------------------------------------------------------- zig-zag (serializer.rs / deserializer.rs)
for s in SW:
    K("C02.K.zz.enc_" + s, "postcard/src/ser/serializer.rs::verif_zz", "verif_zz::zz_" + s, {"C02": "D"},
      fns=["postcard::ser::serializer::zig_zag_" + s], note="zig_zag(n) == (n>=0 ? 2n : -2n-1) for all n")
    K("C03.K.zz.dec_" + s, "postcard/src/de/deserializer.rs::verif_dec", "verif_dec::unzz_" + s, {"C03": "D"},
      fns=["postcard::de::deserializer::de_zig_zag_" + s], note="de_zig_zag(u) == (u even ? u/2 : -(u+1)/2) for all u")
for w in W:
    K("C03.K.de.take_" + w, "postcard/src/de/deserializer.rs::verif_dec", "verif_dec::dec_" + w, {"C03": "D"},
      fns=["postcard::de::deserializer::Deserializer::try_take_varint_" + w],
      note="every byte string of length <= ceil(bits/7)+2 over de::Slice: accept/reject, value, consumed, error kind == wire-format decoder")

# ---------------------------------------------------------------- storage flavours (ser/flavors.rs)
SF = "postcard/src/ser/flavors.rs::verif_serflavor"
K("C05.K.slice.contract", SF, "verif_serflavor::slice_contract", {"C05": "D"},
  fns=["postcard::ser::flavors::Slice::new", "postcard::ser::flavors::Slice::try_push", "postcard::ser::flavors::Slice::try_extend", "postcard::ser::flavors::Slice::finalize"],
  note="Hoare triple over a symbolic window with guard bytes: Ok iff fits, BufferFull otherwise, finalize == written prefix, frame: every unwritten byte unchanged (loop-free, full domain)")
K("C05.K.slice.index", SF, "verif_serflavor::slice_index", {"C05": "S", "C06": "S"},
  fns=["postcard::ser::flavors::Slice::index", "postcard::ser::flavors::Slice::index_mut"],
  note="Index/IndexMut address exactly byte idx of the buffer; frame")
K("C05.K.hvec.contract", SF, "verif_serflavor::hvec_contract", {"C05": "D"}, label="bounded(B=5, blocks<=4)",
  fns=["postcard::ser::flavors::HVec::try_push", "postcard::ser::flavors::HVec::try_extend", "postcard::ser::flavors::HVec::finalize"],
  note="HVec<5>: push/extend Err(BufferFull) iff it would exceed B, contents appended in order")
K("C05.K.size.contract", SF, "verif_serflavor::size_contract", {"C05": "D"},
  fns=["postcard::ser::flavors::Size::try_push", "postcard::ser::flavors::Size::try_extend", "postcard::ser::flavors::Size::finalize"],
  note="Size counts exactly (any prior count), never fails")
K("C20.K.flavor.default_extend", SF, "verif_serflavor::default_extend", {"C20": "D"}, label="bounded(block<=4)",
  fns=["postcard::ser::flavors::Flavor::try_extend (default)"],
  note="default try_extend == try_push per byte in order, stops at first error")

# ---------------------------------------------------------------- C01 round trip through the public API
PROBES = "postcard/src/lib.rs::verif_probes"
C01M = "postcard/src/lib.rs::verif_c01"
for k in ["bool", "i8", "u8", "i16", "u16", "i32", "u32", "i64", "u64", "i128", "u128", "usize", "isize", "char_1", "char_2", "char_3", "char_4", "unit", "option",
          "unit_struct", "newtype_struct", "tuple_struct", "tuple", "enum", "struct", "array", "f32", "f64"]:
    K("C01.K.kind." + k, C01M, "verif_c01::rt_" + k, {"C01": "D"}, needs=(REF, PROBES),
      fns=["postcard::to_slice", "postcard::take_from_bytes", "postcard::from_bytes", "postcard::ser::serializer (impl ser::Serializer)", "postcard::de::deserializer (impl de::Deserializer)"],
      note="take_from_bytes(to_slice(v) ++ tail) == Ok(v, tail) for EVERY value of the probe type (full domain)")
K("C01.K.kind.borrowed", C01M, "verif_c01::rt_borrowed", {"C01": "D"}, needs=(REF, PROBES), label="bounded(str/bytes len<=3)",
  note="struct with &str and &[u8] (serialize_bytes) fields round-trips; symbolic contents")
K("C01.K.kind.seq", C01M, "verif_c01::rt_seq", {"C01": "D"}, needs=(REF, PROBES), label="bounded(elements<=2)",
  note="heapless::Vec<u16,3> round-trips")
for e in ["to_vec", "to_extend", "to_allocvec", "to_io", "decoders"]:
    K("C01.K.entry." + e, C01M, "verif_c01::entry_" + e, {"C01": "D"}, needs=(REF, PROBES),
      fns=["postcard::to_slice", "postcard::to_vec", "postcard::to_allocvec", "postcard::to_extend", "postcard::to_io", "postcard::from_bytes", "postcard::take_from_bytes", "postcard::from_io"],
      note="encode entry gives the same bytes as to_slice / the three decode entries agree, for every value of a probe type")

# ---------------------------------------------------------------- accumulator (accumulator.rs), Route V
ACCF = ["postcard::accumulator::CobsAccumulator::feed_ref"]
for c, what in [("conserve", "returned remainder is a suffix of the chunk: consumed ++ remainder == chunk"),
                ("frame_fits", "zero-terminated segment that fits: exactly the isolated decoding of view++segment, rest handed back, buffer reset"),
                ("append_fits", "unterminated piece that fits (incl. empty chunk): Consumed, buffered completely")]:
    V("C08.V.acc.feed_ref." + c, "acc", "CobsAccumulator::feed_ref", {"C08": "D"}, fns=ACCF, note=what)
V("C08.V.acc.feed_ref.strongest", "acc", "CobsAccumulator::feed_ref", {"C08": "S", "C09": "S"}, fns=ACCF,
  note="(outcome, remainder, view') == acc_step(N, view, input): strongest postcondition (also fixes which suffix is returned on overflow)")
V("C08.V.acc.extend_unchecked", "acc", "CobsAccumulator::extend_unchecked", {"C08": "S", "C09": "S"},
  fns=["postcard::accumulator::CobsAccumulator::extend_unchecked"], note="view' == view ++ input; slice range in bounds")
V("C08.V.acc.feed", "acc", "CobsAccumulator::feed", {"C08": "S", "C09": "S"}, fns=["postcard::accumulator::CobsAccumulator::feed"],
  note="feed is feed_ref (same strongest postcondition)")
V("C08.L.acc.clauses_determine_step", "acc", "lemma_c08_clauses_determine_step", {"C08": "D"}, kind="L",
  note="the three C08 clauses imply the strongest postcondition whenever the first piece fits")
V("C08.L.acc.chunking", "acc", "lemma_chunking", {"C08": "D"}, kind="L",
  note="chunking independence: run(view, a++b) == run(view,a) ++ run(view_after_a, b) for EVERY cut point (induction; all lengths)")
V("C08.L.acc.run_is_isolated", "acc", "lemma_run_is_isolated", {"C08": "D"}, kind="L",
  note="the reports equal decoding each zero-terminated segment in isolation")
V("C08.L.acc.one_result_per_zero", "acc", "lemma_one_result_per_zero", {"C08": "D"}, kind="L",
  note="exactly one report per zero byte")
for c, what in [("wf", "idx <= N preserved with no precondition on the chunk"),
                ("reset", "chunk contains a zero ==> buffer empty afterwards (initial state)"),
                ("overfull", "over-long segment ==> OverFull no later than the call that receives its sentinel; remainder after the sentinel"),
                ("progress", "N>=1: remainder strictly shorter, or equal with idx going N -> 0"),
                ("safe", "no index out of bounds, no arithmetic overflow/underflow, split_at / slicing preconditions hold (body obligations)")]:
    V("C09.V.acc.feed_ref." + c, "acc", "CobsAccumulator::feed_ref", {"C09": "D"}, fns=ACCF, note=what)
V("C09.V.acc.new", "acc", "CobsAccumulator::new0", {"C09": "D", "C08": "S"}, fns=["postcard::accumulator::CobsAccumulator::new"],
  note="new() is the initial state: empty view, idx <= N")
V("C09.L.acc.resync", "acc", "lemma_resync", {"C09": "D"}, kind="L", note="after any zero byte the state equals new()'s")
V("C09.L.acc.progress", "acc", "lemma_progress", {"C09": "D"}, kind="L", note="measure 2|rem| + [idx==N] strictly decreases per call when N >= 1")
V("C09.L.acc.documented_loop", "acc", "documented_loop", {"C09": "D"}, kind="L",
  note="exec driver of the documented feed loop verified with `decreases` against feed's contract: terminates for every N >= 1, any chunk")

# ---------------------------------------------------------------- schema key hashers (postcard-schema key/hash.rs), Route V
HS = "postcard_schema::key::hash::"
V("C16.V.fnv.hash_update", "hash", "fnv1a64::hash_update", {"C16": "D"}, fns=[HS + "fnv1a64::hash_update"],
  note="hash_update(state, bytes) == FNV-1a-64 fold (prime 0x100000001b3, wrapping) over bytes, all lengths")
V("C16.V.fnv.hash_update_str", "hash", "fnv1a64::hash_update_str", {"C16": "D"}, fns=[HS + "fnv1a64::hash_update_str"], note="== fnv(state, s bytes)")
V("C16.V.fnv.hasher_new", "hash", "Fnv1a64Hasher::new", {"C16": "S"}, fns=[HS + "Fnv1a64Hasher::new"], note="BASIS == 0xcbf29ce484222325")
V("C16.V.fnv.hasher_digest", "hash", "Fnv1a64Hasher::digest", {"C16": "S"}, fns=[HS + "Fnv1a64Hasher::digest"])
for f in ["hash_sdm_type", "hash_struct", "hash_variant", "hash_named_field", "hash_ty_path"]:
    V("C16.V.hash.static." + f, "hash", "fnv1a64::" + f, {"C16": "D"}, fns=[HS + "fnv1a64::" + f],
      note="compile-time hasher == fold spec h_* over the abstract view of the &'static schema (all trees, all depths)")
for f in ["hash_sdm_type_owned", "hash_struct", "hash_variant", "hash_named_field", "hash_ty_path_owned"]:
    V("C16.V.hash.owned." + f, "hash", "fnv1a64_owned::" + f, {"C16": "D"}, fns=[HS + "fnv1a64_owned::" + f],
      note="run-time hasher == the SAME fold spec h_* over the abstract view of the owned schema")
V("C16.L.hash.stream", "hash", "eq_ty", {"C16": "D"}, kind="L", note="fold spec == FNV-1a over the declarative tag-and-name stream st_ty (33 tags from one table)")
for l in ["eq_data", "eq_tys", "eq_nfs", "eq_vars", "eq_nf", "eq_var"]:
    V("C16.L.hash.stream." + l, "hash", l, {"C16": "D"}, kind="L", note="mutual induction partner of eq_ty")
V("C16.L.hash.agree", "hash", "lemma_keys_agree", {"C16": "D"}, kind="L",
  note="equal abstract views => compile-time key == run-time key == FNV-1a(path ++ stream)")
V("C16.L.hash.names", "hash", "lemma_type_names_ignored", {"C16": "D"}, kind="L", note="struct/enum type names do not occur in the stream")

# ---------------------------------------------------------------- C02 emitters (impl ser::Serializer for &mut Serializer<F>)
EM = "postcard/src/ser/serializer.rs::verif_emit"
SER = "postcard::ser::serializer::<impl ser::Serializer for &mut Serializer<F>>::"
for k, fs in [("u16", ["serialize_u16"]), ("u32", ["serialize_u32"]), ("u64", ["serialize_u64"]), ("u128", ["serialize_u128"]),
              ("i16", ["serialize_i16"]), ("i32", ["serialize_i32"]), ("i64", ["serialize_i64"]), ("i128", ["serialize_i128"]),
              ("raw", ["serialize_bool", "serialize_i8", "serialize_u8", "serialize_f32", "serialize_f64"]),
              ("char", ["serialize_char"]),
              ("option_unit_newtype", ["serialize_none", "serialize_some", "serialize_unit", "serialize_unit_struct", "serialize_newtype_struct"]),
              ("variants", ["serialize_unit_variant", "serialize_newtype_variant"]),
              ("variants2", ["serialize_tuple_variant", "serialize_struct_variant", "SerializeTupleVariant::*", "SerializeStructVariant::*"]),
              ("compound", ["serialize_seq", "serialize_map", "serialize_tuple", "serialize_tuple_struct", "serialize_struct", "SerializeSeq::*", "SerializeMap::*", "SerializeTuple::*", "SerializeTupleStruct::*", "SerializeStruct::*"]),
              ("buffer_full", ["(all emitters, zero-capacity storage)"])]:
    K("C02.K.emit." + k, EM, "verif_emit::emit_" + k, {"C02": "D"} if k != "buffer_full" else {"C05": "D"}, fns=[SER + f for f in fs],
      note="{out==pre} serialize_X(v) {out == pre ++ wire-format bytes of v}: full domain of the arguments")
K("C02.K.emit.str_bytes", EM, "verif_emit::emit_str_bytes", {"C02": "D"}, label="bounded(len<=3)", fns=[SER + "serialize_str", SER + "serialize_bytes"],
  note="varint(len) ++ bytes; symbolic contents")
K("C02.K.seq_len_unknown", EM, "verif_emit::seq_len_unknown", {"C02": "D"}, fns=[SER + "serialize_seq", SER + "serialize_map"],
  note="serialize_seq(None) / serialize_map(None) return Err")
K("C02.K.seq_len_unknown_kind", EM, "verif_emit::seq_len_unknown_kind", {"C02": "S"}, fns=[SER + "serialize_seq"],
  note="... the error is SerializeSeqLengthUnknown and nothing was written (stronger than the property)")
K("C02.K.collect_str", EM, "verif_emit::emit_collect_str", {"C02": "D"}, label="bounded(2 pieces of <=2 bytes)", fns=[SER + "collect_str"],
  note="collect_str(d) == varint(total formatted length) ++ formatted text, through core::fmt")

# ---------------------------------------------------------------- C02 emitters, Route V: the real Serializer methods, generic over the flavour contract, all values
_EMW = {"serialize_u8": "raw", "serialize_bool": "raw", "serialize_str": "str_bytes", "serialize_bytes": "str_bytes",
        "serialize_none": "option_unit_newtype", "serialize_some": "option_unit_newtype", "serialize_unit": "option_unit_newtype",
        "serialize_unit_struct": "option_unit_newtype", "serialize_newtype_struct": "option_unit_newtype",
        "serialize_unit_variant": "variants", "serialize_newtype_variant": "variants",
        "serialize_tuple_variant": "variants2", "serialize_struct_variant": "variants2",
        "serialize_seq": "compound", "serialize_map": "compound", "serialize_tuple": "compound", "serialize_tuple_struct": "compound", "serialize_struct": "compound"}
for _b in [16, 32, 64, 128]:
    _EMW["serialize_u%d" % _b] = "u%d" % _b
    _EMW["serialize_i%d" % _b] = "i%d" % _b
for _m, _w in sorted(_EMW.items()):
    V("C02.V.emit." + _m, "emit", "Serializer::" + _m, {"C02": "D", "C01": "S"}, fns=[SER + _m], witness="C02.K.emit." + _w,
      note="{out==pre} " + _m + "(..) {Ok ==> out == pre ++ wire bytes}: real method, generic over ANY flavour meeting the flavour contract, every argument value (lengths / indices unbounded)")
for _tr, _short, _fns in [("SerializeSeq", "seq", ["serialize_element"]), ("SerializeTuple", "tuple", ["serialize_element"]),
                          ("SerializeTupleStruct", "tuple_struct", ["serialize_field"]), ("SerializeTupleVariant", "tuple_variant", ["serialize_field"]),
                          ("SerializeMap", "map", ["serialize_key", "serialize_value"]), ("SerializeStruct", "struct", ["serialize_field"]),
                          ("SerializeStructVariant", "struct_variant", ["serialize_field"])]:
    for _f in _fns + ["end"]:
        V("C02.V.emit.%s_%s" % (_short, _f), "emit", "Serializer::%s_%s" % (_short, _f), {"C02": "D", "C01": "S"},
          fns=["postcard::ser::serializer::<impl ser::%s for &mut Serializer<F>>::%s" % (_tr, _f)],
          witness="C02.K.emit." + ("variants2" if "variant" in _short else "compound"),
          note=("appends exactly the element's / field's own wire form (field names never reach the output)" if _f != "end" else "appends nothing") + "; generic over the flavour contract")
V("C02.V.emit.serialize_with_flavor", "emit", "serialize_with_flavor", {"C02": "D", "C20": "S", "C05": "S"}, fns=["postcard::ser::serialize_with_flavor"],
  witness="C01.K.entry.to_*", note="the function every to_* entry point goes through: the finalized output stands for exactly storage.view() ++ wire(value) - any value, any flavour meeting the flavour contract (incl. finalize)")
for _w in W:
    V("C02.V.emit.try_push_varint_" + _w, "emit", "Serializer::try_push_varint_" + _w, {"C02": "D", "C01": "S"},
      fns=["postcard::ser::serializer::Serializer::try_push_varint_" + _w], witness="C02.K.emit." + (_w if _w != "usize" else "compound"),
      note="appends exactly enc(n) to the output stream (callee contract of varint_" + _w + " from unit varint)")

# ---------------------------------------------------------------- C03 per-kind decoding through the public API; C04 totality
C03M = "postcard/src/lib.rs::verif_c03"
DES = "postcard::de::deserializer::<impl de::Deserializer for &mut Deserializer<F>>::"
for k, fs, lab in [("bool_u8_i8", ["deserialize_bool", "deserialize_u8", "deserialize_i8"], "complete"),
                   ("i16", ["deserialize_i16"], "complete"), ("i32", ["deserialize_i32"], "complete"),
                   ("i64", ["deserialize_i64"], "complete"), ("i128", ["deserialize_i128"], "complete"),
                   ("floats", ["deserialize_f32", "deserialize_f64"], "complete"),
                   ("option", ["deserialize_option"], "complete"),
                   ("bytes", ["deserialize_bytes"], "bounded(input<=5 bytes)"),
                   ("str", ["deserialize_str"], "bounded(input<=4 bytes, single-byte length prefix)"),
                   ("char", ["deserialize_char"], "bounded(input<=6 bytes, single-byte length prefix; a char needs at most 5)"),
                   ("enum", ["deserialize_enum", "EnumAccess::variant_seed", "VariantAccess::*"], "bounded(input<=7 bytes; probe enum needs at most 7)")]:
    K("C03.K.dec." + k, C03M, "verif_c03::dec_" + k, {"C03": "D"}, label=lab, needs=(REF, PROBES), fns=[DES + f for f in fs] + ["postcard::take_from_bytes"],
      note="take_from_bytes on EVERY byte string up to the stated length: accept/reject, value, remainder, error kind == reference decoder")
K("C03.K.dec.str_long", C03M, "verif_c03::dec_str_long", {"C03": "D"}, needs=(REF, PROBES), fns=[DES + "deserialize_str", DES + "deserialize_string"],
  label="bounded(body<=99 bytes over ASCII u {0xFF}, single-byte length prefix; core::str::from_utf8 stubbed by its specification on that alphabet)",
  note="str contract for LONG strings: accept iff fits and valid, value in place, remainder, error kinds")
K("C03.K.dec.char_accepts_valid", C03M, "verif_c03::dec_char_accepts_valid", {"C03": "D"}, needs=(REF, PROBES), fns=[DES + "deserialize_char"],
  note="every scalar's encoding (+ any tail byte) is accepted and returns that scalar")
# ---------------------------------------------------------------- C03 per-kind decoding, Route V: the real Deserializer methods, generic over flavour and visitor, all streams
_DKW = {"deserialize_bool": "C03.K.dec.bool_u8_i8", "deserialize_u8": "C03.K.dec.bool_u8_i8", "deserialize_i8": "C03.K.dec.bool_u8_i8",
        "deserialize_bytes": "C03.K.dec.bytes", "deserialize_byte_buf": "C03.K.dec.bytes", "deserialize_str": "C03.K.dec.str*", "deserialize_string": "C03.K.dec.str*",
        "deserialize_option": "C03.K.dec.option", "deserialize_unit": "C01.K.kind.unit", "deserialize_unit_struct": "C01.K.kind.unit_struct",
        "deserialize_newtype_struct": "C01.K.kind.newtype_struct"}
for _b in [16, 32, 64, 128]:
    _DKW["deserialize_u%d" % _b] = "C03.K.de.take_u%d" % _b
    _DKW["deserialize_i%d" % _b] = "C03.K.dec.i%d" % _b
for _m, _w in [("deserialize_seq", "C01.K.seq_access*"), ("deserialize_map", "C01.K.map_access*"), ("deserialize_tuple", "C01.K.kind.tuple"),
               ("deserialize_tuple_struct", "C01.K.kind.tuple_struct"), ("deserialize_struct", "C01.K.kind.struct"), ("deserialize_enum", "C03.K.dec.enum")]:
    _DKW[_m] = _w
for _m in ["deserialize_any", "deserialize_identifier", "deserialize_ignored_any"]:
    V("C04.V.dekind." + _m, "dekinds", "Deserializer::" + _m, {"C04": "D", "C03": "S"}, fns=[DES + _m], witness="C04.K.wont_implement*",
      note=_m + ": refused with an error - for every visitor and every stream")
for _m, _q, _w in [("seq_next_element_seed", "SeqAccess::next_element_seed", "C01.K.seq_access*"), ("map_next_key_seed", "MapAccess::next_key_seed", "C01.K.map_access*"),
                   ("map_next_value_seed", "MapAccess::next_value_seed", "C01.K.map_access*")]:
    V("C03.V.dekind." + _m, "dekinds", _q, {"C03": "D", "C01": "S", "C04": "S"}, fns=["postcard::de::deserializer::" + _q], witness=_w,
      note=_q + ": while the announced count is > 0 runs ANY seed on the stream exactly once and counts down, propagating its error; at 0 returns None and touches nothing")
V("C03.V.dekind.variant_seed", "dekinds", "Deserializer::variant_seed", {"C03": "D", "C01": "S", "C04": "S"},
  fns=["postcard::de::deserializer::<impl serde::de::EnumAccess for &mut Deserializer<F>>::variant_seed"], witness="C01.K.variant_index*",
  note="the variant index handed to ANY seed is exactly the varint(u32) at the front of the stream, those bytes consumed, otherwise unexpected-end / bad-varint - every index, every stream (D20: u32::into_deserializer modelled as a seed method)")
V("C04.V.dekind.seq_size_hint", "dekinds", "SeqAccess::size_hint", {"C04": "D"}, fns=["postcard::de::deserializer::SeqAccess::size_hint"], witness="C04.K.size_hint*",
  note="over a flavour that knows how much input is left (Slice), Some(h) ==> h <= bytes left and h == the announced count: a claimed length never drives a pre-allocation beyond the input - every count, every stream")
for _m, _w in sorted(_DKW.items()):
    V("C03.V.dekind." + _m, "dekinds", "Deserializer::" + _m, {"C03": "D", "C04": "S", "C01": "S"}, fns=[DES + _m], witness=_w,
      note=_m + ": shows ANY visitor exactly the value the wire format prescribes for the front of the stream, consumes exactly those bytes, otherwise the error kind of the first violated rule - generic over any flavour meeting the flavour contract, every stream of every length (callee contracts: try_take_varint_* from unit devarint, de_zig_zag_* from unit zigzag)")
for k, tier in [("enum", "quick"), ("tuple", "quick"), ("i64", "quick"), ("option", "quick"), ("struct", "thorough")]:
    K("C03.K.prefix_eof." + k, C03M, "verif_c03::prefix_eof_" + k, {"C03": "D"}, needs=(REF, PROBES), tier=tier,
      fns=["postcard::take_from_bytes"], note="every strict prefix of every valid message of the probe type fails with DeserializeUnexpectedEnd")
DF = "postcard/src/de/flavors.rs::verif_deflavor"
K("C03.K.flavor.slice", DF, "verif_deflavor::slice_contract", {"C03": "D", "C04": "D"},
  fns=["postcard::de::flavors::Slice::new", "postcard::de::flavors::Slice::pop", "postcard::de::flavors::Slice::try_take_n", "postcard::de::flavors::Slice::finalize", "postcard::de::flavors::Slice::size_hint"],
  note="Hoare triple over a symbolic window: pop / try_take_n(any ct) / finalize results, cursor movement, returned slices at the exact input address; every dereference checked by CBMC")
C04M = "postcard/src/lib.rs::verif_c04"
for k, lab in [("struct", "bounded(input<=18 = max encoding of the probe struct)"), ("borrowed", "bounded(input<=6)"), ("scalars", "complete"), ("seq", "bounded(input<=8)"),
               ("kinds", "bounded(input<=7 = longest encoding of the probe enum)"),
               ("char", "bounded(input<=6, a char needs at most 5)")]:
    K("C04.K.total." + k, C04M, "verif_c04::total_" + k, {"C04": "D"}, label=lab, needs=(REF, PROBES),
      fns=["postcard::take_from_bytes", "postcard::de::deserializer::*", "postcard::de::flavors::Slice::*"],
      note="no panic / overflow / out-of-bounds access on every byte string; remainder and borrowed fields lie inside the input")
DEC = "postcard/src/de/deserializer.rs::verif_c04d"
K("C04.K.wont_implement", DEC, "verif_c04d::wont_implement", {"C04": "D"}, fns=[DES + "deserialize_any", DES + "deserialize_identifier", DES + "deserialize_ignored_any"],
  note="refused with Err, no panic")
K("C04.K.wont_implement_kind", DEC, "verif_c04d::wont_implement_kind", {"C04": "S"}, note="... kind is WontImplement and the input is untouched")
K("C04.K.size_hint", DEC, "verif_c04d::seq_size_hint", {"C04": "D"}, fns=["postcard::de::deserializer::SeqAccess::size_hint"],
  note="Some(h) ==> h <= bytes left, for every claimed length")
K("C04.K.size_hint_exact", DEC, "verif_c04d::seq_size_hint_exact", {"C04": "S"}, note="Some(claimed) iff it fits")

# ---------------------------------------------------------------- C06 / C07 COBS
import os as _os, glob as _glob, shutil as _shutil, re as _re

def prepare_cobs(ws):
    """Scratch-only: vendor the pinned cobs-0.2.3 registry source, append a cfg(kani) constructor/getter for the private
    EncoderState, wire it in with [patch.crates-io]. The crate's own code is unchanged."""
    c = _glob.glob(_os.path.expanduser("~/.cargo/registry/src/*/cobs-0.2.3"))
    if not c:
        raise RuntimeError("cobs-0.2.3 not in cargo registry")
    dst = _os.path.join(ws, "vendor", "cobs")
    _shutil.copytree(c[0], dst)
    ct = open(_os.path.join(dst, "Cargo.toml")).read()
    ct = _re.sub(r"\[dev-dependencies\.quickcheck\][^\[]*", "", ct)
    open(_os.path.join(dst, "Cargo.toml"), "w").write(ct)
    with open(_os.path.join(dst, "src", "enc.rs"), "a") as f:
        f.write("""
// ---- appended by /verif, cfg(kani) only ----
#[cfg(kani)]
impl EncoderState {
    pub fn verif_new(code_idx: usize, num_bt_sent: u8, offset_idx: u8) -> Self { Self { code_idx, num_bt_sent, offset_idx } }
    pub fn verif_parts(&self) -> (usize, u8, u8) { (self.code_idx, self.num_bt_sent, self.offset_idx) }
}
""")
    with open(_os.path.join(ws, "Cargo.toml"), "a") as f:
        f.write('\n[patch.crates-io]\ncobs = { path = "vendor/cobs" }\n')

GCOBS = "postcard|" + PC_FEATURES + "|cobs-vendored"
PREPARE = {GCOBS: prepare_cobs}
CB = "postcard/src/ser/flavors.rs::verif_cobs"
COBSF = ["postcard::ser::flavors::Cobs::try_new", "postcard::ser::flavors::Cobs::try_push", "postcard::ser::flavors::Cobs::finalize"]
K("C06.K.cobs.step_slice", CB, "verif_cobs::cobs_step_slice", {"C06": "D", "C05": "D", "C20": "S"}, group=GCOBS, fns=COBSF,
  note="Cobs<Slice>::try_push from an ARBITRARY state satisfying the representation invariant == one step of the abstract encoder machine (zero byte / data byte / 254-block), BufferFull thresholds, frame; loop-free")
K("C06.K.cobs.new_finalize_slice", CB, "verif_cobs::cobs_new_finalize_slice", {"C06": "D", "C05": "D", "C20": "S"}, group=GCOBS, fns=COBSF,
  note="try_new reserves one code byte with the default state; finalize patches the code byte, appends exactly one 0x00, from an arbitrary state")
K("C06.K.cobs.extend1_slice", CB, "verif_cobs::cobs_extend1_slice", {"C06": "D", "C05": "D", "C20": "S"}, group=GCOBS,
  fns=["postcard::ser::flavors::<impl Flavor for Cobs<B>>::try_extend (trait default on the pinned tree)"],
  note="the step contract of C06.K.cobs.step_slice when the byte arrives through try_extend(&[d]), from an ARBITRARY state")
for _n in ["n1", "n253", "n254"]:
    K("C06.K.cobs.extend_equals_pushes." + _n, CB, "verif_cobs::cobs_extend_equals_pushes_" + _n, {"C06": "D", "C05": "D", "C20": "S"}, group=GCOBS,
      fns=["postcard::ser::flavors::<impl Flavor for Cobs<B>>::try_extend (trait default on the pinned tree)"],
      label="bounded(block<=3 bytes, encoder state ci=0 and run length " + _n[1:] + ", fixed initial buffer)",
      note="Flavor::try_extend contract for Cobs<Slice>: == byte-wise pushes (result, encoder state, buffer), frame")
K("C06.K.cobs.step_hvec", CB, "verif_cobs::cobs_step_hvec", {"C06": "S", "C20": "D"}, group=GCOBS, label="bounded(B=6)", fns=COBSF,
  note="same step contract over HVec storage: the transformation does not depend on the innermost storage")
for l, what in [("cobs_flavor_correct", "finalize(run(init, msg)) == cobs(msg) ++ [0] for EVERY message of every length (induction): this settles all run lengths around multiples of 254"),
                ("main_lemma", "generalised induction hypothesis of the above"),
                ("cobs_no_zero", "cobs(msg) contains no zero byte"), ("frame_single_zero", "the frame has exactly one zero byte, its last"),
                ("cobs_len_bound", "|cobs(msg)| <= n + floor(n/254) + 1"), ("cobs_len_exact_nonzero", "equality for zero-free messages"),
                ("cobs_roundtrip", "uncobs(cobs(msg)) == msg for every message")]:
    V("C06.L.cobs." + l, "cobs", l, {"C06": "D", "C20": "S"} if l != "main_lemma" else {"C06": "S"}, kind="L", note=what)
V("C06.V.cobs.encoder_push", "cobs", "EncoderState::push", {"C06": "D", "C20": "S"}, fns=["cobs::EncoderState::push (pinned registry source)"],
  note="the dependency's encoder step applied to any output satisfying the invariant IS the abstract machine's push")
V("C06.V.cobs.encoder_finalize", "cobs", "EncoderState::finalize", {"C06": "D"}, fns=["cobs::EncoderState::finalize"])
V("C06.V.cobs.encoder_default", "cobs", "EncoderState::default0", {"C06": "D"}, fns=["cobs::EncoderState::default"])
C06M = "postcard/src/lib.rs::verif_c06"
K("C06.K.api.small", C06M, "verif_c06::api_small", {"C06": "D"}, needs=(REF, PROBES), label="bounded(plain encoding <= 7 bytes)",
  fns=["postcard::to_slice_cobs", "postcard::from_bytes_cobs"], note="to_slice_cobs(v) == ref_cobs(to_slice(v)) ++ [0], one zero, decodes back; every value of the probe enum")
K("C06.K.api.extend_block", C06M, "verif_c06::api_extend_block", {"C06": "D", "C20": "D"}, needs=(REF, PROBES),
  fns=["postcard::to_slice_cobs", "postcard::to_vec_cobs", "postcard::ser::flavors::<impl Flavor for Cobs<B>>::try_extend (default or override)"],
  note="(u8, f32, u8) with every f32 bit pattern: a 4-byte block handed over in one try_extend with zeros in any position is framed exactly like byte-wise pushes; Slice and HVec storages")
K("C06.K.frames", C06M, "verif_c06::frames", {"C06": "D"}, needs=(REF, PROBES), label="bounded(2 frames)",
  fns=["postcard::take_from_bytes_cobs"], note="two frames back to back, last sentinel present or not: values in order, remainder exactly after each frame")
K("C07.K.from_bytes_cobs", C06M, "verif_c06::decode_arbitrary", {"C07": "D"}, needs=(REF, PROBES), label="bounded(input<=7 bytes)",
  fns=["postcard::from_bytes_cobs", "cobs::decode_in_place"], note="every byte string <= 7: no panic / OOB; BadEncoding iff ill-formed, else == plain decoding of the reference COBS payload")
K("C07.K.take_from_bytes_cobs", C06M, "verif_c06::take_arbitrary", {"C07": "D"}, needs=(REF, PROBES), label="bounded(input<=7 bytes)",
  fns=["postcard::take_from_bytes_cobs", "cobs::decode_in_place_report"], note="... and the remainder begins immediately after the frame's sentinel, untouched")
for _h, _f in [("take_wrapper_long", "take_from_bytes_cobs"), ("decode_wrapper_long", "from_bytes_cobs")]:
    K("C07.K." + _h, C06M, "verif_c06::" + _h, {"C07": "D"}, needs=(REF, PROBES), fns=["postcard::" + _f],
      label="bounded(buffer<=300 bytes; cobs::decode_in_place[_report] replaced by its contract)",
      note="modular: the wrapper against the CALLEE'S CONTRACT (cobs 0.2.3 decode_raw!: src_used == first zero or len, dst_used <= src_used, or Err): which bytes are plain-decoded, remainder begins right after the sentinel and runs to the end, BadEncoding on Err - for frames far longer than the bounded end-to-end harness reaches")

# ---------------------------------------------------------------- C13 fixint, C10 CRC
C13M = "postcard/src/lib.rs::verif_c13"
for t in ["u16", "i16", "u32", "i32", "u64", "i64", "u128", "i128"]:
    K("C13.K.fixint." + t, C13M, "verif_c13::fix_" + t, {"C13": "D"},
      fns=["postcard::fixint::le::serialize", "postcard::fixint::le::deserialize", "postcard::fixint::be::serialize", "postcard::fixint::be::deserialize",
           "postcard::fixint::<impl Serialize/Deserialize for LE<%s>/BE<%s>>" % (t, t)],
      note="struct with #[serde(with = fixint::le/be)] field: exactly size_of bytes, byte i == the right 8 bits, decodes back, truncation -> UnexpectedEnd; every value")
C10M = "postcard/src/lib.rs::verif_c10"
for w in ["u8", "u16", "u32", "u64", "u128"]:
    tier = "quick" if w in ("u8", "u16", "u32") else "thorough"
    K("C10.K.ser.crc_" + w, C10M, "verif_c10::ser_" + w, {"C10": "D"}, tier=tier,
      fns=["postcard::ser::flavors::crc::CrcModifier::try_push", "postcard::ser::flavors::crc::CrcModifier::finalize", "postcard::ser::flavors::crc::to_slice_" + w,
           "postcard::de::flavors::crc::take_from_bytes_" + w],
      note="output == plain ++ LE(bitwise reference CRC of exactly the plain bytes); round trip with tail; every value of the probe")
    K("C10.K.de.crc_" + w, C10M, "verif_c10::de_" + w, {"C10": "D"}, tier=tier, label="bounded(input <= 4 + width/8 bytes = longest frame of the probe)",
      fns=["postcard::de::flavors::crc::CrcModifier::pop", "postcard::de::flavors::crc::CrcModifier::try_take_n", "postcard::de::flavors::crc::CrcModifier::finalize"],
      note="on EVERY input: Ok ==> consumed value bytes are followed by their correct checksum and the remainder starts after it; Err ==> plain error, too short, or genuine mismatch (BadCrc)")
K("C10.K.take_n_feeds_digest", C10M, "verif_c10::take_n_feeds_digest", {"C10": "D"}, fns=["postcard::de::flavors::crc::CrcModifier::try_take_n"],
  note="borrowed bytes (multi-byte try_take_n) are covered by the checksum: any corruption of them is rejected")

# ---------------------------------------------------------------- C12 max size
MS = "postcard/src/max_size.rs::verif_maxsize"
K("C12.K.const.tight", MS, "verif_maxsize::const_tight", {"C12": "D"}, fns=["postcard::max_size::<impl MaxSize for bool..f64, char, (), Option, [T;N], tuples 1-6, heapless::Vec, heapless::String>"],
  note="constants of the kinds the property calls tight EQUAL the wire-format formula (marker element types with distinct prime sizes)")
K("C12.K.const.safe", MS, "verif_maxsize::const_safe", {"C12": "D"}, fns=["postcard::max_size::<impl MaxSize for Result, Range*, &T, &mut T, Box, Rc, Arc, PhantomData, NonZero*>"],
  note="remaining impls: constant >= wire-format maximum")
K("C12.K.varint_size", MS, "verif_maxsize::varint_size_exact", {"C12": "D"}, fns=["postcard::max_size::varint_size"],
  note="varint_size(n) == |canonical varint of n| for every usize n")
for t in ["u16", "i16", "u32", "i32", "u64", "i64", "u128", "i128", "usize", "bool", "f64", "option", "tuple", "array", "result", "char"]:
    K("C12.K.value." + t, MS, "verif_maxsize::value_" + t, {"C12": "D"}, tier="quick" if t != "char" else "thorough",
      fns=["postcard::ser::serialized_size", "postcard::max_size::MaxSize"],
      note="serialized_size(v) <= POSTCARD_MAX_SIZE for EVERY value of the type, with a cover witness that the bound is attained")

# ---------------------------------------------------------------- C20 stacks, C11 transports
C20M = "postcard/src/lib.rs::verif_c20"
K("C20.K.recorder", C20M, "verif_c20::recorder", {"C20": "D"}, needs=(REF, PROBES), fns=["postcard::serialize_with_flavor", "postcard::ser::flavors::Flavor::try_extend (default)"],
  note="user flavours with and without a try_extend override receive exactly plain(v), in order; finalize once; every value of the probe enum")
for s_, tier_ in [("slice", "quick"), ("hvec", "quick"), ("allocvec", "quick")]:
    K("C20.K.stack.crc_in_cobs_" + s_, C20M, "verif_c20::stack_crc_in_cobs_" + s_, {"C20": "D"}, needs=(REF, PROBES), tier=tier_,
      fns=["postcard::ser::flavors::crc::CrcModifier", "postcard::ser::flavors::Cobs", "postcard::serialize_with_flavor"],
      note="CrcModifier(Cobs(storage)) output == ref_cobs(plain ++ crc8) ++ [0] (bitwise CRC, reference COBS), every value of the probe")
K("C20.K.stack.undo", C20M, "verif_c20::stack_undo", {"C20": "D"}, needs=(REF, PROBES), tier="thorough",
  fns=["postcard::ser::flavors::crc::CrcModifier", "postcard::ser::flavors::Cobs", "cobs::decode_in_place", "postcard::de::flavors::crc::from_bytes_u8"],
  note="undoing the layers in reverse order recovers the value")
C11M = "postcard/src/lib.rs::verif_c11"
IOF = ["postcard::de::flavors::io::io::IOReader::pop", "postcard::de::flavors::io::io::IOReader::try_take_n", "postcard::de::flavors::io::io::IOReader::finalize",
       "postcard::de::flavors::io::SlidingBuffer::take_n", "postcard::de::flavors::io::SlidingBuffer::complete"]
K("C11.K.ioreader.contract", C11M, "verif_c11::ioreader_contract", {"C11": "D", "C04": "D"}, needs=(REF, PROBES), label="bounded(stream<=6, scratch<=4, takes<=3+2)", fns=IOF,
  note="IOReader over a model reader with nondeterministic short reads satisfies the Flavor contract of de::Slice; slots consecutive & disjoint inside the scratch; reader advanced by exactly the bytes consumed; unused scratch returned")
K("C11.K.ioreader.fail", C11M, "verif_c11::ioreader_fail", {"C11": "D"}, needs=(REF, PROBES), label="bounded(3 calls)", fns=IOF,
  note="reader failing at any call => Err(DeserializeUnexpectedEnd), no panic")
K("C11.K.from_io", C11M, "verif_c11::from_io_two_messages", {"C11": "D"}, needs=(REF, PROBES), label="bounded(stream 6 bytes)", fns=["postcard::from_io"],
  note="from_io == take_from_bytes on every 6-byte stream and every short-read schedule; two consecutive messages")
K("C11.K.writeflavor", C11M, "verif_c11::writeflavor_contract", {"C11": "D", "C20": "D"}, needs=(REF, PROBES), label="bounded(block<=3)",
  fns=["postcard::ser::flavors::io::WriteFlavor::try_push", "postcard::ser::flavors::io::WriteFlavor::try_extend", "postcard::ser::flavors::io::WriteFlavor::finalize"],
  note="Ok from try_push / try_extend ==> exactly those bytes reached the writer, for a writer that accepts partial writes, becomes full (Ok(0)) or fails at any call")
K("C11.K.to_io", C11M, "verif_c11::to_io_partial_writes", {"C11": "D"}, needs=(REF, PROBES), label="bounded(encoding<=4 bytes)",
  fns=["postcard::to_io", "postcard::ser::flavors::io::WriteFlavor::try_push", "postcard::ser::flavors::io::WriteFlavor::try_extend", "postcard::ser::flavors::io::WriteFlavor::finalize"],
  note="writer accepting nondeterministic partial writes receives exactly plain(v), flushed once; failing writer => Err, never a panic")

# ---------------------------------------------------------------- zig-zag, Route V (bit_vector proofs, all widths)
for s in SW:
    V("C02.V.zz.enc_" + s, "zigzag", "zig_zag_" + s, {"C02": "D", "C01": "S"}, fns=["postcard::ser::serializer::zig_zag_" + s], witness="C02.K.zz.enc_" + s,
      note="zig_zag(n) == (n >= 0 ? 2n : -2n-1) as mathematical integers, for every n")
    V("C03.V.zz.dec_" + s, "zigzag", "de_zig_zag_" + s, {"C03": "D", "C01": "S"}, fns=["postcard::de::deserializer::de_zig_zag_" + s], witness="C03.K.zz.dec_" + s,
      note="de_zig_zag(u) == (u even ? u/2 : -(u/2)-1), for every u")
    V("C01.V.zz.roundtrip_" + s, "zigzag", "roundtrip_" + s, {"C01": "D"}, kind="L",
      note="de_zig_zag(zig_zag(n)) == n for every n: exec composition verified from the two contracts only")

# ---------------------------------------------------------------- postcard-dyn private varint / zig-zag copies, Route V
for w in W:
    V("C17.V.dyn.varint.varint_" + w, "dynvarint", "varint_" + w, {"C17": "D", "C18": "D"}, fns=["postcard_dyn::ser::varint::varint_" + w],
      note="postcard-dyn's copy of the writer satisfies the SAME contract (r@ == enc(n)) as postcard's => both codecs emit identical varints; no panic / overflow")
V("C17.V.dyn.varint_max", "dynvarint", "varint_max", {"C17": "S"}, fns=["postcard_dyn::ser::varint::varint_max"])
for s in SW:
    V("C17.V.dyn.zz.enc_" + s, "dynvarint", "zig_zag_" + s, {"C17": "D", "C18": "D"}, fns=["postcard_dyn::ser::varint::zig_zag_" + s],
      note="postcard-dyn's zig-zag (a different formula: (n<<1)^(n>>bits-1)) equals the wire-format definition, hence postcard's")

# ---------------------------------------------------------------- postcard-dyn leaf arms (C17 / C18, partial)
DYN = dict(pkg="postcard-dyn", features="", needs=())
DD = "postcard-dyn/src/de.rs::verif_dynde"
DS = "postcard-dyn/src/ser.rs::verif_dynser"
for k in ["u8", "u16", "u32", "u64", "usize", "i8", "i16", "i32", "i64", "isize", "bool"]:
    K("C17.K.dyn.de_leaf." + k, DD, "verif_dynde::leaf_" + k, {"C17": "D"}, fns=["postcard_dyn::de::deserialize (leaf arm %s)" % k, "postcard_dyn::de::varint::try_take_varint_*", "postcard_dyn::de::varint::de_zig_zag_*"],
      note="dynamic decode == static decode (value as JSON number, bytes consumed, accept/reject) on EVERY byte string up to max+1", **DYN)
for k in ["u8", "u16", "u32", "u64", "i8", "i16", "i32", "i64", "bool"]:
    K("C17.K.dyn.ser_leaf." + k, DS, "verif_dynser::leaf_" + k, {"C17": "D"}, fns=["postcard_dyn::ser::ser_named_type (leaf arm %s)" % k],
      note="to_stdvec_dyn(kind, json(v)) == static encoding of v for EVERY v", **DYN)
K("C17.K.dyn.take_ext", DD, "verif_dynde::take_ext", {"C17": "S", "C18": "D"}, fns=["postcard_dyn::de::TakeExt::take_one", "postcard_dyn::de::TakeExt::take_n"],
  note="bounds-checked, split exactly", **DYN)
for k, lab in [("numeric_leaves", "complete (input <= 20 >= longest varint)"), ("floats", "complete"), ("char", "bounded(input<=3)"), ("schema", "bounded(input<=3)")]:
    K("C18.K.dyn.de_total." + k, DD, "verif_dynde::total_" + k, {"C18": "D"}, label=lab if lab.startswith("bounded") else "complete",
      fns=["postcard_dyn::from_slice_dyn", "postcard_dyn::de::deserialize (leaf arms)"], note="from_slice_dyn on every byte string: a value or an error, never a panic / overflow / OOB", **DYN)
K("C18.K.dyn.ser_total.leaves", DS, "verif_dynser::total_leaves", {"C18": "D"}, fns=["postcard_dyn::ser::ser_named_type (leaf arms)"],
  note="every numeric/bool/unit leaf kind x symbolic leaf JSON (null / bool / any u64 / any i64): result or error, never a panic", **DYN)
K("C18.K.dyn.ser_total.schema", DS, "verif_dynser::total_schema", {"C18": "D"}, fns=["postcard_dyn::ser::ser_named_type (Schema arm)"],
  note="to_stdvec_dyn(Schema, _) returns instead of panicking", **DYN)

# ---------------------------------------------------------------- postcard-schema: C14 (Schema vs Serialize), C16 witness
SCH = dict(pkg="postcard-schema", features="use-std,derive,heapless-v0_7", needs=())
C14M = "postcard-schema/src/lib.rs::verif_c14"
SCAL = ["bool", "u8", "i8", "u16", "i16", "u32", "i32", "u64", "i64", "u128", "i128", "f32", "f64", "char", "unit",
        "nz_u8", "nz_i8", "nz_u16", "nz_i16", "nz_u32", "nz_i32", "nz_u64", "nz_i64", "nz_u128", "nz_i128"]
for k in SCAL:
    K("C14.K.builtin." + k, C14M, "verif_c14::b_" + k, {"C14": "D"}, fns=["postcard_schema::impls::builtins_nostd::<impl Schema for %s>" % k],
      note="events(v) (recording serde::Serializer) conform to T::SCHEMA for EVERY value", **SCH)
K("C14.K.builtin.generic_shapes", C14M, "verif_c14::b_generic_shapes", {"C14": "D"},
  fns=["postcard_schema::impls::builtins_nostd::<impl Schema for Option<T>, Result<T,E>, &T, tuples 1-6, [T;N]>"],
  note="generic impls instantiated with opaque marker element types (distinct leaf schemas) standing for any T", **SCH)
K("C14.K.builtin.ranges", C14M, "verif_c14::b_ranges", {"C14": "D"}, fns=["postcard_schema::impls::builtins_nostd::<impl Schema for Range, RangeInclusive, RangeFrom, RangeTo>"],
  note="field names and order of the range structs", **SCH)
K("C14.K.builtin.str_slices", C14M, "verif_c14::b_str_slices", {"C14": "D"}, label="bounded(len<=2)",
  fns=["postcard_schema::impls::<impl Schema for str, [T], heapless::Vec, heapless::String>"], **SCH)
K("C14.K.builtin.collection_shapes", C14M, "verif_c14::b_collection_shapes", {"C14": "S"}, label="bounded(shape of the constant only)",
  fns=["postcard_schema::impls::<impl Schema for Vec, String, BTreeMap, HashMap, BTreeSet, HashSet, heapless::Vec, heapless::String>"],
  note="constant has the shape Seq(T)/Map{K,V}/String with marker elements; the serialisation side of these collections rests on A-serde", **SCH)
K("C14.K.builtin.key", C14M, "verif_c14::b_key", {"C14": "D"}, fns=["postcard_schema::key::<impl Schema for Key>"], **SCH)
K("C14.K.derive.structs", C14M, "verif_c14::d_structs", {"C14": "D"}, label="bounded(corpus)", fns=["postcard_derive::schema (derive output)"],
  note="#[derive(Schema, Serialize)] corpus: unit, newtype, tuple, named, generic, lifetime structs; bounded stand-in, not counted as proved", **SCH)
for v in ["unit", "newtype"]:
    K("C14.K.derive.enum_" + v, C14M, "verif_c14::d_enum_" + v, {"C14": "D"}, label="bounded(corpus)", fns=["postcard_derive::schema (derive output)"],
      note="derive corpus: enum variant form with symbolic payload", **SCH)
for v in ["unit", "newtype", "tuple", "struct1", "struct2"]:
    K("C14.K.derive.flat_" + v, C14M, "verif_c14::d_flat_" + v, {"C14": "D"}, label="bounded(corpus)", fns=["postcard_derive::schema (derive output)"],
      note="derive corpus, enum variant forms incl. one- and two-field struct variants and tuple variants, checked with a non-recursive one-level conformance checker (leaf payloads)", **SCH)
for v in ["struct", "v0", "v1", "v2", "v3", "v4"]:
    K("C14.K.derive.names_" + v, C14M, "verif_c14::d_names_" + v, {"C14": "D"}, label="bounded(corpus)", fns=["postcard_derive::schema (derive output)"],
      note="derive corpus, identifier handling: field / variant names starting with r, _, upper case, with digits, and raw identifiers (r#type) must equal the names serde writes", **SCH)

# C16: no Kani obligation. CBMC does not constant-propagate through the &'static schema references and unwinds the recursive
# hashers over all 26 kinds at every level (no verdict even for depth-2 concrete trees in 5 min, measured). The Route-V stubs
# D10 (T::SCHEMA read) and D3' (final to_le_bytes) are therefore listed as trusted in the evidence.

# C15: no obligation. The one-tree-per-kind Kani harnesses (wire bytes of borrowed vs owned schema, deserialisation, structural
# comparison) did not produce a verdict even for depth-1 trees within 5-10 min: CBMC unwinds the recursive derived Serialize /
# Deserialize / PartialEq / From code of the 26-variant recursive enum over every kind at every level. Verus cannot take the
# conversion either (iter().map().collect()). C15 is listed under not_applicable.

# ---------------------------------------------------------------- accumulator Kani witnesses
ACCK = "postcard/src/accumulator.rs::verif_acc"
K("C08.K.stub.position_zero", ACCK, "verif_acc::position_zero_spec", {"C08": "S", "C09": "S"}, label="bounded(slice<=8)",
  note="discharges the Route-V stub D4 (iter().position(|&i| i == 0) == first zero) for slices up to 8")
K("C08.K.acc.feed_ref_step", ACCK, "verif_acc::feed_ref_step", {"C08": "D", "C09": "D"}, label="bounded(N=4, chunk<=4)", fns=ACCF,
  note="one feed_ref call from an ARBITRARY state on every chunk <= 4 bytes: the C08/C09 clauses as stated in the Verus contract, isolated decoding = real from_bytes_cobs; gives concrete failing states/chunks")
for o in OBLIGATIONS:
    if o["id"].startswith("C08.V.acc.feed_ref.") and o["props"].get("C08") == "D":
        o["witness"] = "C08.K.acc.feed_ref_step"
    if o["id"].startswith("C09.V.acc.feed_ref."):
        o["witness"] = "C08.K.acc.feed_ref_step"

# ---------------------------------------------------------------- assumptions / trusted base reported in every evidence file
A_SERDE = "A-serde: serde's Serialize/Deserialize impls and serde_derive output call exactly the data-model methods their shape prescribes, in order, and propagate errors unchanged (probe-type harnesses run serde's real code and are evidence for it, not a proof)"
A_STD = "A-std: core/alloc/std functions (from_utf8, encode_utf8, copy_nonoverlapping, split_at, read_exact, write_all, Vec, Box) are executed as real code under Kani and axiomatised by vstd under Verus"
A_HOST = "A-host: 64-bit little-endian host (global size_of usize == 8); the 16/32-bit cfg branches are not verified"
A_TOOLS = "tools: Verus 0.2026.09.13 + Z3 + vstd axioms; Kani 0.68 / CBMC 6.11 + CaDiCaL; machine integers are bit-precise in both; spec integers are mathematical; termination is proved only where Verus has a decreases clause (never under Kani)"
A_PARAM = "parametricity: probe / marker element types stand for 'any T', one concrete flavour stands for 'any F' on the Kani route (argument, not proof)"
ASSUMPTIONS = {
    "*": [A_TOOLS, A_HOST, A_STD],
    "C01": [A_SERDE, A_PARAM, "nesting to arbitrary depth is not proved as one theorem: per-kind round trips + composite probes (depth <= 3) + A-serde"],
    "C02": [A_SERDE, A_PARAM, "Verus stub le0_* (x.to_le_bytes()[0] == x & 0xff) - discharged by Kani harnesses C02.K.stub.le0_*", "debug_assert_eq!(value, 0) dropped on Route V (D2); Kani checks it",
            "unit emit: Flavor and Serialize are re-declared traits carrying the flavour contract (out' == out ++ data on Ok) and the payload hypothesis (a value appends wire()); str length/bytes through stubs str_len / str_as_bytes over an uninterpreted str_bytes (D17, std: len() == as_bytes().len()); array-length literals for varint_max::<T>() (D18, == C12.V.varint_max); .map_err(|_| BufferFull) dropped (D12); methods of `&mut Serializer<F>` taken by value are extracted as inherent `&mut self` methods (D15) and compound-state results Ok(self) as Ok(()) (D16); serialize_i8 / f32 / f64 / char / collect_str are not in the unit (Kani only)"],
    "C03": [A_SERDE, A_PARAM, "unit dekinds: Flavor and Visitor are re-declared traits (flavour contract; an abstract visitor whose answer on_X(v) is any function of the value shown, and whose effect on the stream for option/newtype payloads is any function of the stream); UTF-8 validity is the uninterpreted utf8_ok with the stub from_utf8_or_bad = core::str::from_utf8(..).map_err(BadUtf8) (D19, std); Deserializer's fields made pub for the abstract contract (visibility only); deserialize_char / f32 / f64 and MapAccess::size_hint are not in the unit (Kani contracts); the flavour contract includes size_hint as `exact when Some` (Slice: Kani C03.K.flavor.slice); for compound kinds the visitor's / seed's effect on the stream is an arbitrary function (on_seq, on_map, on_enum, on_de)", "UTF-8 validity oracle for strings <= 3 bytes is written from Unicode Table 3-7; char oracle uses char::encode_utf8 (std)"],
    "C04": [A_SERDE, "A-cautious: serde's collection visitors cap pre-allocation by min(hint, 1 MiB / size_of::<T>()); the numeric allocation bound itself is not decided by any contract in reach", "MapAccess::size_hint returns Some(len) unconditionally (maps are outside the property's allocation clause; recorded, not alarmed)"],
    "C05": [A_SERDE, A_PARAM, "capacity running out at every byte position is covered per flavour contract (symbolic capacity), not as one API-level theorem"],
    "C06": ["A-cobs-src: the cobs source verified is the registry copy of cobs 0.2.3 pinned by Cargo.lock, with a cfg(kani) constructor/getter appended in the scratch copy only", "the link between the per-step contract (Kani, arbitrary state) and the whole-message theorem (Verus lemma) is the shared abstract machine M; Cobs<B> relies on B only through the Flavor + IndexMut contract proved for Slice/HVec", A_SERDE],
    "C07": ["bounded: input length <= 7 (loops are over the input length) where cobs::decode_in_place is executed as real code; for buffers up to 300 bytes the cobs decoder is replaced by its contract (assumed: read off cobs 0.2.3 dec.rs, backed by the <=7 end-to-end harness and the spec-level lemma uncobs(cobs(m)) == m)", A_SERDE],
    "C08": ["relative to frame decoding: crate::from_bytes_cobs::<T> is an external_body stub with an uninterpreted spec function (D5), pinned by C06/C07", "stub position_zero (D4) checked by Kani for slices <= 8", "axiom: slices and arrays are at most isize::MAX bytes (Rust language guarantee)", "where-clauses T: Deserialize dropped (D6)"],
    "C09": ["same stubs and axioms as C08", "progress/termination is proved for the documented loop as written in the accumulator's doc comment (exec driver in the unit's trailer)"],
    "C10": ["A-crc-burst: detection of every burst <= width is a property of the catalogue polynomials (crc / crc-catalog dependency), not of code in /repo; decided here only through 'Ok ==> stored checksum == bitwise reference CRC of the consumed bytes'", "crc crate tables are used as compiled; checked against the bitwise reference only on the probe messages", A_SERDE],
    "C11": ["bounded: stream <= 6 bytes, scratch <= 4, because std's read_exact / write_all loops are bounded by the requested count; the embedded-io 0.6 adapters are covered in the thorough tier only (separate feature build), embedded-io 0.4 not at all", A_SERDE],
    "C12": [A_SERDE, "#[derive(MaxSize)]: only the discriminant-size helper is under contract (extracted verbatim into a harness); the token-stream generation (sum over fields, max over variants) is not covered - and postcard depends on the REGISTRY postcard-derive 0.1.2, not on the workspace copy", A_PARAM],
    "C13": [A_SERDE, "macro-generated impls are verified after expansion (Kani works on MIR)"],
    "C14": [A_SERDE, A_PARAM, "derive output: bounded corpus only (token-stream generator); tuple/struct enum variants are checked with a non-recursive one-level checker (leaf payloads only)", "std collections (Vec, String, maps, sets) and heapless containers: only the shape of the schema constant is checked", "chrono, nalgebra, uuid impls not covered", "'a schema-driven reader parses every encoding' is not proved as a lemma"],
    "C15": [A_SERDE, "bounded: one concrete tree per node kind (depth <= 3); lifting to all trees relies on compositionality of serde_derive output"],
    "C16": ["recursive exec hashers carry #[verifier::exec_allows_no_decreases_clause]: their termination is not proved (the spec functions' termination is)", "stub D10: T::SCHEMA is read through schema_of::<T>() (uninterpreted); stub D3': the final .to_le_bytes() of hash_ty_path / hash_ty_path_owned is dropped - both trusted (Kani cannot discharge them: recursion over &'static schema trees is intractable for CBMC, measured)", "the 33-entry tag table is transcribed from the comments of key/hash.rs (the only documentation); sensitivity is proved for the tag STREAM, not for the 64-bit key (collisions exist by counting)"],
    "C17": ["partial: private varint / zig-zag copies (Verus, unbounded) and scalar leaf arms (Kani, complete); the composite arms (Option/Seq/Tuple/Map/Struct/Enum) walking serde_json::Value are NOT covered", "serde_json::Value results are mem::forget-ed in harnesses (drop glue intractable)"],
    "C18": ["partial: leaf kinds only; composite arms and the allocation bound are NOT covered (serde_json / BTreeMap are out of reach of both tools)"],
    "C20": ["one probe value type per stack; innermost storages Slice / HVec / AllocVec; CRC-8/SMBUS in the stack harnesses", A_SERDE],
}

# ---------------------------------------------------------------- Cobs<B> flavour, Route V (generic over the storage contract)
for f, what in [("try_new", "fresh Cobs over an empty storage is the initial machine state"),
                ("try_push", "one push == one step of the abstract encoder machine, for ANY inner storage satisfying the storage contract and any state satisfying the representation invariant"),
                ("finalize", "finalize output == finalize(machine): last code byte patched, exactly one sentinel")]:
    V("C06.V.flavor." + f, "cobsflavor", "Cobs::" + f, {"C06": "D", "C20": "D"}, fns=["postcard::ser::flavors::Cobs::" + f, "cobs::EncoderState (pinned registry source)"],
      witness="C06.K.cobs.*_slice", note=what)
V("C06.V.flavor.whole_message", "cobsflavor", "encode_all", {"C06": "D", "C20": "D"}, kind="L",
  note="exec driver over the real flavour: pushing any message byte by byte and finalizing yields cobs(msg) ++ [0] - for every message length and every storage satisfying the contract")
V("C06.V.flavor.try_extend", "cobsflavor", "Cobs::try_extend", {"C06": "D", "C20": "S"}, witness="C06.K.cobs.extend*", fns=["postcard::ser::flavors::<impl Flavor for Cobs<B>>::try_extend (only if an override exists)"],
  note="OPTIONAL item: absent on the pinned tree (trait default used); if an override appears it must equal byte-wise pushes", kind="O")

# ---------------------------------------------------------------- varint readers, Route V (generic over the deserialization flavour contract)
for w in ["u16", "u32", "u64", "u128", "usize"]:
    V("C03.V.de.take_" + w, "devarint", "Deserializer::try_take_varint_" + w, {"C03": "D", "C04": "S", "C11": "S", "C01": "S"},
      fns=["postcard::de::deserializer::Deserializer::try_take_varint_" + w], witness="C03.K.de.take_" + w,
      note="for EVERY flavour satisfying the flavour contract and every input stream: result, bytes consumed (never one more) and error kind == wire-format decoder dec_<w> (bit form); no overflow / out-of-range shift")
for w in ["u16", "u32", "u64", "u128"]:
    V("C17.V.dyn.de.take_" + w, "dyndevarint", "try_take_varint_" + w, {"C17": "D", "C18": "D"},
      fns=["postcard_dyn::de::varint::try_take_varint_" + w], witness=("C17.K.dyn.de_leaf." + w) if w != "u128" else None,
      note="postcard-dyn's private reader == the SAME wire-format decoder spec dec_<w> as postcard's: same acceptance set, values, bytes consumed; no overflow / out-of-range shift")
ASSUMPTIONS["C03"].append("Route V varint readers: the spec dec_<w> is the wire-format decoder in bit form (mirrors 7-bit little-endian groups); it is tied to an independently written arithmetic reference only through the Kani harnesses C03.K.de.take_*; try_take_varint_usize's `.map(|u| u as usize)` is dropped (identity on the 64-bit host)")
ASSUMPTIONS["C17"].append("TakeExt::take_one is an external_body stub in unit dyndevarint; its contract is checked on the real code by Kani C17.K.dyn.take_ext")

# ---------------------------------------------------------------- added after round-2 seeded changes were missed
C05M = "postcard/src/lib.rs::verif_c05"
for k, fs in [("plain", ["postcard::to_slice"]), ("cobs", ["postcard::to_slice_cobs"]), ("crc32", ["postcard::to_slice_crc32", "postcard::ser::flavors::crc::to_slice_u32"]),
              ("empty_payload", ["postcard::to_slice", "postcard::to_slice_cobs", "postcard::to_slice_crc32"]), ("vec", ["postcard::to_vec"]), ("vec_cobs", ["postcard::to_vec_cobs"])]:
    K("C05.K.api.threshold_" + k, C05M, "verif_c05::threshold_" + k, {"C05": "D"}, needs=(REF, PROBES), fns=fs + ["postcard::serialize_with_flavor"],
      note="public entry point, every value of the probe, EVERY capacity (symbolic): Ok iff capacity >= complete output length, then exactly the unbounded output at the front and the rest untouched; else SerializeBufferFull and nothing written outside the buffer")
K("C05.K.api.size_exact", C05M, "verif_c05::size_exact", {"C05": "D"}, needs=(REF, PROBES), fns=["postcard::experimental::serialized_size"],
  note="serialized_size(v) == output length for every value of the probe enum; 0 for the unit")
K("C06.K.api.entry_points", C06M, "verif_c06::api_entry_points", {"C06": "D", "C01": "S"}, needs=(REF, PROBES),
  fns=["postcard::to_slice_cobs", "postcard::to_vec_cobs", "postcard::to_allocvec_cobs", "postcard::to_stdvec_cobs"],
  note="all COBS entry points (slice, heapless vector, growable vector) produce the same frame for every value of the probe")
K("C06.K.api.empty_message", C06M, "verif_c06::api_empty_message", {"C06": "D"}, needs=(REF, PROBES),
  fns=["postcard::to_slice_cobs", "postcard::to_vec_cobs", "postcard::to_allocvec_cobs"], note="the frame of an EMPTY plain encoding is [0x01, 0x00] through each entry point")
K("C06.K.api.empty_message_std", C06M, "verif_c06::api_empty_message_std", {"C06": "D"}, needs=(REF, PROBES), fns=["postcard::to_stdvec_cobs"], note="... also through to_stdvec_cobs")
K("C02.K.collect_str_char", EM, "verif_emit::emit_collect_str_char", {"C02": "D"}, label="bounded(one char + one piece <= 2 bytes)", fns=[SER + "collect_str"],
  note="collect_str when the Display impl uses write_char (every unicode scalar incl. multi-byte): varint(total UTF-8 length) ++ text")
FNVK = "postcard-schema/src/key/hash.rs::verif_fnv"
for k, f in [("hash_update", HS + "fnv1a64::hash_update"), ("hash_update_str", HS + "fnv1a64::hash_update_str"), ("hasher", HS + "Fnv1a64Hasher::{new,update,digest,digest_bytes}")]:
    K("C16.K.fnv." + k, FNVK, "verif_fnv::fnv_" + k, {"C16": "D"}, label="bounded(len<=4)" if k != "hasher" else "complete", fns=[f],
      note="non-recursive FNV primitive == independently written FNV-1a 64 for every state and every byte value (incl. >= 0x80, multi-byte strings)", **SCH)
for o in OBLIGATIONS:
    if o["id"] == "C16.V.fnv.hash_update": o["witness"] = "C16.K.fnv.hash_update"
    if o["id"] == "C16.V.fnv.hash_update_str": o["witness"] = "C16.K.fnv.hash_update_str"

# ---------------------------------------------------------------- C12: the derive's discriminant-size helper (private fn of the proc-macro crate)
def prepare_schema_group(ws):
    """Scratch-only: a proc-macro crate cannot host a Kani harness, so the private helper `varint_size_discriminant` of
    source/postcard-derive/src/max_size.rs is extracted MECHANICALLY (tools/extract.py, by name, verbatim text) into a file that the
    cfg(kani) harness module of postcard-schema includes."""
    import sys as _sys
    _sys.path.insert(0, _os.path.join(_os.path.dirname(_os.path.dirname(_os.path.abspath(__file__))), "tools"))
    import extract as _ex
    text, _line = _ex.extract_fn(_os.path.join(ws, "source"), dict(file="postcard-derive/src/max_size.rs", name="varint_size_discriminant"))
    open(_os.path.join(ws, "source", "postcard-schema", "src", "verif_extracted_discr.rs"), "w").write("// extracted verbatim from source/postcard-derive/src/max_size.rs\n" + text + "\n")

PREPARE["postcard-schema|" + SCH["features"]] = prepare_schema_group
DISC = "postcard-schema/src/lib.rs::verif_discr"
K("C12.K.derive.discriminant", DISC, "verif_discr::discriminant_size", {"C12": "D"}, fns=["postcard_derive::max_size::varint_size_discriminant (extracted verbatim)"],
  note="for every variant count c >= 1 and every index i < c: |varint(i)| <= varint_size_discriminant(c); and the bound is not more than one byte above the largest index's length", **SCH)

# ---------------------------------------------------------------- C11: embedded-io 0.6 adapters (separate feature build)
EIO = dict(features="use-std,heapless,embedded-io-06", needs=())
C11E = "postcard/src/lib.rs::verif_c11e"
K("C11.K.eio.reader", C11E, "verif_c11e::eioreader_contract", {"C11": "D"}, label="bounded(stream<=5, scratch<=3)", tier="thorough",
  fns=["postcard::de::flavors::io::eio::EIOReader::pop", "postcard::de::flavors::io::eio::EIOReader::try_take_n", "postcard::de::flavors::io::eio::EIOReader::finalize"],
  note="EIOReader over a model embedded_io::Read with nondeterministic short reads and failure injection: same flavour contract as IOReader", **EIO)
K("C11.K.eio.writer", C11E, "verif_c11e::eio_writeflavor_contract", {"C11": "D"}, label="bounded(block<=3)", tier="thorough",
  fns=["postcard::ser::flavors::eio::WriteFlavor::try_push", "postcard::ser::flavors::eio::WriteFlavor::try_extend", "postcard::ser::flavors::eio::WriteFlavor::finalize"],
  note="eio::WriteFlavor over a model embedded_io::Write that accepts partial writes, becomes full or fails: Ok ==> the bytes reached the writer", **EIO)

# ---------------------------------------------------------------- SeqAccess / MapAccess contracts (full usize domain)
K("C01.K.seq_access", DEC, "verif_c04d::seq_access_contract", {"C01": "D", "C03": "D"}, fns=["postcard::de::deserializer::SeqAccess::next_element_seed"],
  note="for EVERY remaining count (all of usize): Some(next element) and count-1 while > 0, else None without consuming input")
K("C01.K.map_access", DEC, "verif_c04d::map_access_contract", {"C01": "D", "C03": "D"}, fns=["postcard::de::deserializer::MapAccess::next_key_seed", "postcard::de::deserializer::MapAccess::next_value_seed"],
  note="for EVERY remaining count: key then value in order, entry counted exactly once")
K("C01.K.seq_len_passed_through", DEC, "verif_c04d::seq_len_passed_through", {"C01": "D", "C03": "D"}, fns=[DES + "deserialize_map", DES + "deserialize_tuple"],
  note="the decoded varint(usize) count (every usize) / the static arity reaches the visitor unchanged")

for w in ["u8", "u16", "u32", "u64", "u128"]:
    K("C10.K.small.crc_" + w, C10M, "verif_c10::small_" + w, {"C10": "D"},
      fns=["postcard::ser::flavors::crc::to_slice_" + w, "postcard::de::flavors::crc::take_from_bytes_" + w, "postcard::ser::flavors::crc::CrcModifier::finalize", "postcard::de::flavors::crc::CrcModifier::finalize"],
      note="EVERY width in the quick tier on a one-byte probe: frame == plain ++ LE(bitwise reference CRC), round trip, any corruption of any checksum byte -> BadCrc, truncated checksum rejected")
K("C01.K.variant_index", DEC, "verif_c04d::variant_index_contract", {"C01": "D", "C03": "D"}, fns=["postcard::de::deserializer::<impl EnumAccess for &mut Deserializer<F>>::variant_seed"],
  note="EVERY byte string <= 7: the variant index handed to serde, bytes consumed and error kind == varint(u32) wire-format decoder (indices >= 128, padded, u32::MAX)")

K("C17.K.dyn.ser_leaf.f64", DS, "verif_dynser::leaf_f64", {"C17": "D"}, fns=["postcard_dyn::ser::ser_named_type (F64 arm)"], note="every finite f64: bytes == little-endian IEEE-754 pattern", **DYN)
K("C17.K.dyn.de_leaf.floats", DD, "verif_dynde::leaf_floats", {"C17": "D"}, fns=["postcard_dyn::de::deserialize (F32, F64 arms)"],
  note="every byte string <= 9: dynamic float decode == static decode for finite values, rejection only for non-finite / truncated", **DYN)
K("C18.K.dyn.ser_total.string_json", DS, "verif_dynser::total_string_json", {"C18": "D"}, label="bounded(5 strings: empty, ASCII, 2-byte, two chars, 4-byte scalar)",
  fns=["postcard_dyn::ser::ser_named_type (Char, String and scalar arms on string JSON)"], note="string JSON against Char / String / numeric kinds: result or error, never a panic", **DYN)

for m in ["crc", "cobs"]:
    K("C20.K.extend_equals_pushes_" + m, C20M, "verif_c20::extend_equals_pushes_" + m, {"C20": "D"}, needs=(REF, PROBES), label="bounded(block<=72, fixed byte pattern)",
      tier="quick" if m == "crc" else "thorough",
      fns=["postcard::ser::flavors::Flavor::try_extend (default or override) of " + ("crc::CrcModifier" if m == "crc" else "Cobs")],
      note="modifier flavour: ONE try_extend(block) == byte-wise try_push of the block, output and checksum/frame identical; CRC: concrete block lengths 0, 1, 9, 17, 33, 65, 72 (just past every power-of-two chunk size), Cobs: every length 0..=72")

# ---------------------------------------------------------------- varint round trip (spec level, all values of each width)
for w in ["u16", "u32", "u64", "u128"]:
    V("C01.L.varint.roundtrip_" + w, "devarint", "lemma_varint_roundtrip_" + w, {"C01": "D", "C03": "S"}, kind="L",
      note="dec_" + w + "(enc(n) ++ rest) == Ok(n, |enc(n)|) for EVERY n: the bit-form decoder the real reader is proved to compute (C03.V.de.take_*) inverts the arithmetic encoder the real writer is proved to emit (C02.V.varint.*); induction over the bytes, bit-vector step lemmas per position")
for _b in [16, 32, 64, 128]:
    V("C01.L.rt.i%d" % _b, "dekinds", "lemma_rt_i%d" % _b, {"C01": "D"}, kind="L",
      note="what serialize_i%d is proved to write (enc(zz(v)), unit emit) is what deserialize_i%d is proved to show the visitor (unzz(dec_u%d(..)), unit dekinds): the same v, consuming exactly the encoding - every v, every continuation" % (_b, _b, _b))
V("C01.L.rt.len_prefixed", "dekinds", "lemma_rt_len_prefixed", {"C01": "D"}, kind="L",
  note="what serialize_bytes / serialize_str are proved to write (enc(len) ++ body) is what deserialize_bytes / deserialize_str are proved to show the visitor: exactly that body, leaving exactly the rest - bodies of EVERY length")
# ---------------------------------------------------------------- wire-model lemmas (spec level): nesting to any depth
V("C01.L.model.roundtrip", "wiremodel", "lemma_model_roundtrip", {"C01": "D"}, kind="L",
  note="for every well-typed value of the serde data model nested to ANY depth (leaf kinds abstract; option, seq/map, tuple/struct, enum variants): dec(shape, enc(v) ++ rest) == (v, rest), given the per-kind leaf round trips (C01.K.kind.*) as the one hypothesis; count prefixes and variant indices are concrete (enc / dec_u64 / dec_u32) and use the PROVED varint round trip")
V("C12.L.model.size_bound", "wiremodel", "lemma_model_size_bound", {"C12": "D"}, kind="L",
  note="for every value of a fixed-size shape nested to any depth: |enc(v)| <= max_size(shape) with max_size the MaxSize formulas (option +1, tuple/struct sum, enum discriminant + max), given the per-kind leaf bounds; the discriminant bound is the proved monotonicity of |enc|")
ASSUMPTIONS["C01"] = [a for a in ASSUMPTIONS["C01"] if not a.startswith("nesting to arbitrary depth")] + [
    "nesting to arbitrary depth: spec-level lemma C01.L.model.roundtrip over an abstract wire model whose one hypothesis (hyp_leaf_roundtrip - an external_body proof fn over the uninterpreted scalar codecs) is what the per-kind obligations C01.K.kind.* discharge on the real code; length prefixes and variant indices are NOT hypothesised: enc / dec_u64 / dec_u32 with the proved lemmas C01.L.varint.roundtrip_*; that serde drives postcard's methods according to that model is A-serde"]

for o in OBLIGATIONS:
    for w in ["u16", "u32", "u64"]:
        if o["id"] == "C17.V.dyn.varint.varint_" + w: o["witness"] = "C17.K.dyn.ser_leaf." + w
    for sw in ["i16", "i32", "i64"]:
        if o["id"] == "C17.V.dyn.zz.enc_" + sw: o["witness"] = "C17.K.dyn.ser_leaf." + sw
