#[cfg(kani)]
mod verif_varint {
    use super::*;
    use crate::verif_ref::*;

    macro_rules! enc_harness {
        ($name:ident, $stub:ident, $ty:ty, $f:ident, $bits:expr) => {
            /// C02 (deciding): the writer's output is the canonical LEB128 of n, for every n.
            #[kani::proof]
            #[kani::unwind(21)]
            fn $name() {
                let n: $ty = kani::any();
                let mut buf = [0u8; varint_max::<$ty>()];
                let used = $f(n, &mut buf);
                let mut r = [0u8; 19];
                let rl = ref_enc(n as u128, &mut r);
                kani::cover!(rl == max_len($bits));
                kani::cover!(rl == 1);
                assert!(used.len() == rl, "varint length differs from canonical LEB128 length");
                assert!(rl <= max_len($bits), "canonical encoding exceeds ceil(bits/7)");
                let mut i = 0;
                while i < max_len($bits) {
                    if i < rl {
                        assert!(used[i] == r[i], "varint byte differs from canonical LEB128");
                    }
                    i += 1;
                }
            }

            /// D3 stub spec used on Route V: `x.to_le_bytes()[0] == (x & 0xff) as u8`
            #[kani::proof]
            fn $stub() {
                let x: $ty = kani::any();
                assert!(x.to_le_bytes()[0] == (x & 0xff) as u8);
            }
        };
    }
    enc_harness!(enc_u16, le0_u16, u16, varint_u16, 16);
    enc_harness!(enc_u32, le0_u32, u32, varint_u32, 32);
    enc_harness!(enc_u64, le0_u64, u64, varint_u64, 64);
    enc_harness!(enc_u128, le0_u128, u128, varint_u128, 128);
    enc_harness!(enc_usize, le0_usize, usize, varint_usize, 64);

    /// C12: varint_max is ceil(bits/7) for every width used; max_of_last_byte is 2^(bits mod 7) - 1
    #[kani::proof]
    fn varint_max_table() {
        assert!(varint_max::<u8>() == 2);
        assert!(varint_max::<u16>() == 3);
        assert!(varint_max::<u32>() == 5);
        assert!(varint_max::<u64>() == 10);
        assert!(varint_max::<u128>() == 19);
        assert!(varint_max::<usize>() == 10);
        assert!(max_of_last_byte::<u16>() == 0x03);
        assert!(max_of_last_byte::<u32>() == 0x0f);
        assert!(max_of_last_byte::<u64>() == 0x01);
        assert!(max_of_last_byte::<u128>() == 0x03);
    }
}
