#[cfg(kani)]
mod verif_zz {
    use super::*;
    use crate::verif_ref::*;

    macro_rules! zz_harness {
        ($name:ident, $ity:ty, $f:ident, $bits:expr) => {
            /// C02 (deciding): zig-zag is exactly n>=0 -> 2n, n<0 -> -2n-1, for every n.
            #[kani::proof]
            fn $name() {
                let n: $ity = kani::any();
                kani::cover!(n < 0);
                kani::cover!(n == <$ity>::MIN);
                assert!($f(n) as u128 == ref_zz(n as i128, $bits), "zig-zag differs from the wire-format definition");
            }
        };
    }
    zz_harness!(zz_i16, i16, zig_zag_i16, 16);
    zz_harness!(zz_i32, i32, zig_zag_i32, 32);
    zz_harness!(zz_i64, i64, zig_zag_i64, 64);
    zz_harness!(zz_i128, i128, zig_zag_i128, 128);
}
