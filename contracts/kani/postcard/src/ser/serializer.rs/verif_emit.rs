// C02: every method of the real `impl ser::Serializer for &mut Serializer<F>` emits exactly the bytes the
// wire-format specification prescribes for its data-model kind. Direct calls, Hoare style:
//   {output == pre} serialize_X(args) {output == pre ++ ref_bytes_X(args)}
#[cfg(kani)]
mod verif_emit {
    use super::*;
    use crate::ser::flavors::HVec;
    use crate::verif_ref::*;
    use serde::ser::{SerializeMap, SerializeSeq, SerializeStruct, SerializeStructVariant, SerializeTuple, SerializeTupleStruct, SerializeTupleVariant, Serializer as _};

    type S = Serializer<HVec<48>>;
    fn fresh() -> S {
        Serializer { output: HVec::new() }
    }
    struct Exp {
        b: [u8; 48],
        n: usize,
    }
    impl Exp {
        fn new() -> Self {
            Exp { b: [0; 48], n: 0 }
        }
        fn byte(&mut self, x: u8) {
            self.b[self.n] = x;
            self.n += 1;
        }
        fn varint(&mut self, v: u128) {
            let mut r = [0u8; 19];
            let l = ref_enc(v, &mut r);
            let mut i = 0;
            while i < 19 {
                if i < l {
                    self.byte(r[i]);
                }
                i += 1;
            }
        }
        fn varint64(&mut self, v: u64) {
            let mut r = [0u8; 10];
            let l = ref_enc64(v, &mut r);
            let mut i = 0;
            while i < 10 {
                if i < l {
                    self.byte(r[i]);
                }
                i += 1;
            }
        }
        fn bytes(&mut self, s: &[u8]) {
            let mut i = 0;
            while i < s.len() {
                self.byte(s[i]);
                i += 1;
            }
        }
    }
    fn same(s: S, e: &Exp) {
        let out = s.output.finalize().unwrap();
        assert!(out.len() == e.n, "SPEC: emitted length differs from the wire format");
        let i: usize = kani::any();
        kani::assume(i < e.n);
        assert!(out[i] == e.b[i], "SPEC: emitted byte differs from the wire format");
    }

    macro_rules! emit_unsigned {
        ($name:ident, $ty:ty, $m:ident) => {
            #[kani::proof]
            #[kani::unwind(21)]
            fn $name() {
                let v: $ty = kani::any();
                let mut s = fresh();
                assert!((&mut s).$m(v).is_ok());
                let mut e = Exp::new();
                e.varint(v as u128);
                same(s, &e);
            }
        };
    }
    macro_rules! emit_signed {
        ($name:ident, $ty:ty, $m:ident, $bits:expr) => {
            #[kani::proof]
            #[kani::unwind(21)]
            fn $name() {
                let v: $ty = kani::any();
                let mut s = fresh();
                assert!((&mut s).$m(v).is_ok());
                let mut e = Exp::new();
                e.varint(ref_zz(v as i128, $bits));
                same(s, &e);
            }
        };
    }
    emit_unsigned!(emit_u16, u16, serialize_u16);
    emit_unsigned!(emit_u32, u32, serialize_u32);
    emit_unsigned!(emit_u64, u64, serialize_u64);
    emit_unsigned!(emit_u128, u128, serialize_u128);
    emit_signed!(emit_i16, i16, serialize_i16, 16);
    emit_signed!(emit_i32, i32, serialize_i32, 32);
    emit_signed!(emit_i64, i64, serialize_i64, 64);
    emit_signed!(emit_i128, i128, serialize_i128, 128);

    /// bool / i8 / u8: one raw byte; f32 / f64: little-endian IEEE-754 bit pattern
    #[kani::proof]
    #[kani::unwind(12)]
    fn emit_raw() {
        let b: bool = kani::any();
        let i: i8 = kani::any();
        let u: u8 = kani::any();
        let f: u32 = kani::any();
        let d: u64 = kani::any();
        let mut s = fresh();
        assert!((&mut s).serialize_bool(b).is_ok());
        assert!((&mut s).serialize_i8(i).is_ok());
        assert!((&mut s).serialize_u8(u).is_ok());
        assert!((&mut s).serialize_f32(f32::from_bits(f)).is_ok());
        assert!((&mut s).serialize_f64(f64::from_bits(d)).is_ok());
        let mut e = Exp::new();
        e.byte(if b { 1 } else { 0 });
        e.byte(i as u8);
        e.byte(u);
        let mut k = 0;
        while k < 4 {
            e.byte((f >> (8 * k)) as u8);
            k += 1;
        }
        let mut k = 0;
        while k < 8 {
            e.byte((d >> (8 * k)) as u8);
            k += 1;
        }
        same(s, &e);
    }

    /// str / bytes: varint(usize) count, then the bytes (len <= 3 symbolic, contents symbolic)
    #[kani::proof]
    #[kani::unwind(21)]
    fn emit_str_bytes() {
        let sb: [u8; 3] = kani::any();
        let sl: usize = kani::any();
        kani::assume(sl <= 3);
        kani::assume(sb[0] < 0x80 && sb[1] < 0x80 && sb[2] < 0x80);
        let st = unsafe { core::str::from_utf8_unchecked(&sb[..sl]) };
        let bb: [u8; 3] = kani::any();
        let bl: usize = kani::any();
        kani::assume(bl <= 3);
        let mut s = fresh();
        assert!((&mut s).serialize_str(st).is_ok());
        assert!((&mut s).serialize_bytes(&bb[..bl]).is_ok());
        let mut e = Exp::new();
        e.varint64(sl as u64);
        e.bytes(&sb[..sl]);
        e.varint64(bl as u64);
        e.bytes(&bb[..bl]);
        same(s, &e);
    }

    /// char: UTF-8 form encoded as a string
    #[kani::proof]
    #[kani::unwind(21)]
    fn emit_char() {
        let c: char = kani::any();
        let mut s = fresh();
        assert!((&mut s).serialize_char(c).is_ok());
        let mut u = [0u8; 4];
        let l = c.encode_utf8(&mut u).len();
        let mut e = Exp::new();
        e.varint64(l as u64);
        e.bytes(&u[..l]);
        same(s, &e);
    }

    /// option tags, units, newtypes: 0x00 / 0x01 + payload; nothing for unit, unit_struct, newtype_struct wrapper
    #[kani::proof]
    #[kani::unwind(21)]
    fn emit_option_unit_newtype() {
        let p: u16 = kani::any();
        let q: u16 = kani::any();
        let mut s = fresh();
        assert!((&mut s).serialize_none().is_ok());
        assert!((&mut s).serialize_some(&p).is_ok());
        assert!((&mut s).serialize_unit().is_ok());
        assert!((&mut s).serialize_unit_struct("NameMustNotAppear").is_ok());
        assert!((&mut s).serialize_newtype_struct("NameMustNotAppear", &q).is_ok());
        let mut e = Exp::new();
        e.byte(0);
        e.byte(1);
        e.varint64(p as u64);
        e.varint64(q as u64);
        same(s, &e);
    }

    /// enum forms: varint(u32) variant index (full u32 domain), then the payload; names never reach the output
    #[kani::proof]
    #[kani::unwind(21)]
    fn emit_variants() {
        let i0: u32 = kani::any();
        let i1: u32 = kani::any();
        let p: u16 = kani::any();
        let mut s = fresh();
        assert!((&mut s).serialize_unit_variant("E", i0, "V").is_ok());
        assert!((&mut s).serialize_newtype_variant("E", i1, "V", &p).is_ok());
        kani::cover!(i0 == u32::MAX);
        kani::cover!(i1 == 128);
        let mut e = Exp::new();
        e.varint64(i0 as u64);
        e.varint64(i1 as u64);
        e.varint64(p as u64);
        same(s, &e);
    }
    #[kani::proof]
    #[kani::unwind(21)]
    fn emit_variants2() {
        let i2: u32 = kani::any();
        let i3: u32 = kani::any();
        let p: u16 = kani::any();
        let mut s = fresh();
        {
            let mut t = (&mut s).serialize_tuple_variant("E", i2, "V", 2).unwrap();
            assert!(SerializeTupleVariant::serialize_field(&mut t, &p).is_ok());
            assert!(SerializeTupleVariant::end(t).is_ok());
        }
        {
            let mut t = (&mut s).serialize_struct_variant("E", i3, "V", 1).unwrap();
            assert!(SerializeStructVariant::serialize_field(&mut t, "field", &p).is_ok());
            assert!(SerializeStructVariant::end(t).is_ok());
        }
        let mut e = Exp::new();
        e.varint64(i2 as u64);
        e.varint64(p as u64);
        e.varint64(i3 as u64);
        e.varint64(p as u64);
        same(s, &e);
    }

    /// seq / map: varint(usize) count (full usize domain) then the elements; tuple / tuple_struct / struct: no arity, no names
    #[kani::proof]
    #[kani::unwind(21)]
    fn emit_compound() {
        let n: usize = kani::any();
        let m: usize = kani::any();
        let p: u16 = kani::any();
        let k: u8 = kani::any();
        let mut s = fresh();
        {
            let mut t = (&mut s).serialize_seq(Some(n)).unwrap();
            assert!(SerializeSeq::serialize_element(&mut t, &p).is_ok());
            assert!(SerializeSeq::end(t).is_ok());
        }
        {
            let mut t = (&mut s).serialize_map(Some(m)).unwrap();
            assert!(SerializeMap::serialize_key(&mut t, &k).is_ok());
            assert!(SerializeMap::serialize_value(&mut t, &p).is_ok());
            assert!(SerializeMap::end(t).is_ok());
        }
        {
            let mut t = (&mut s).serialize_tuple(7).unwrap();
            assert!(SerializeTuple::serialize_element(&mut t, &k).is_ok());
            assert!(SerializeTuple::end(t).is_ok());
        }
        {
            let mut t = (&mut s).serialize_tuple_struct("N", 9).unwrap();
            assert!(SerializeTupleStruct::serialize_field(&mut t, &k).is_ok());
            assert!(SerializeTupleStruct::end(t).is_ok());
        }
        {
            let mut t = (&mut s).serialize_struct("N", 11).unwrap();
            assert!(SerializeStruct::serialize_field(&mut t, "f", &k).is_ok());
            assert!(SerializeStruct::end(t).is_ok());
        }
        let mut e = Exp::new();
        e.varint64(n as u64);
        e.varint64(p as u64);
        e.varint64(m as u64);
        e.byte(k);
        e.varint64(p as u64);
        e.byte(k);
        e.byte(k);
        e.byte(k);
        same(s, &e);
    }

    /// a sequence or map whose length is not known up front is refused with an error, nothing is written
    #[kani::proof]
    #[kani::unwind(12)]
    fn seq_len_unknown() {
        let mut s = fresh();
        let r = (&mut s).serialize_seq(None);
        assert!(r.is_err(), "SPEC: serialize_seq(None) must be refused");
        let mut s2 = fresh();
        let r2 = (&mut s2).serialize_map(None);
        assert!(r2.is_err(), "SPEC: serialize_map(None) must be refused");
    }
    #[kani::proof]
    #[kani::unwind(12)]
    fn seq_len_unknown_kind() {
        let mut s = fresh();
        match (&mut s).serialize_seq(None) {
            Err(Error::SerializeSeqLengthUnknown) => {}
            _ => panic!("error kind is not SerializeSeqLengthUnknown"),
        }
        assert!(s.output.finalize().unwrap().is_empty());
    }

    /// storage failure is reported as SerializeBufferFull by every emitter (zero-capacity storage)
    #[kani::proof]
    #[kani::unwind(21)]
    fn emit_buffer_full() {
        let mut s: Serializer<HVec<0>> = Serializer { output: HVec::new() };
        let which: u8 = kani::any();
        let r = match which {
            0 => (&mut s).serialize_bool(kani::any()),
            1 => (&mut s).serialize_i8(kani::any()),
            2 => (&mut s).serialize_u8(kani::any()),
            3 => (&mut s).serialize_i16(kani::any()),
            4 => (&mut s).serialize_u16(kani::any()),
            5 => (&mut s).serialize_i32(kani::any()),
            6 => (&mut s).serialize_u32(kani::any()),
            7 => (&mut s).serialize_i64(kani::any()),
            8 => (&mut s).serialize_u64(kani::any()),
            9 => (&mut s).serialize_f32(1.5),
            10 => (&mut s).serialize_f64(2.5),
            11 => (&mut s).serialize_str("ab"),
            12 => (&mut s).serialize_bytes(&[1, 2]),
            13 => (&mut s).serialize_none(),
            14 => (&mut s).serialize_some(&0u8),
            15 => (&mut s).serialize_unit_variant("E", kani::any(), "V"),
            16 => (&mut s).serialize_newtype_variant("E", kani::any(), "V", &0u8),
            17 => (&mut s).serialize_seq(Some(kani::any())).map(|_| ()),
            18 => (&mut s).serialize_map(Some(kani::any())).map(|_| ()),
            19 => (&mut s).serialize_tuple_variant("E", kani::any(), "V", 1).map(|_| ()),
            20 => (&mut s).serialize_struct_variant("E", kani::any(), "V", 1).map(|_| ()),
            21 => (&mut s).serialize_i128(kani::any()),
            _ => (&mut s).serialize_u128(kani::any()),
        };
        match r {
            Err(Error::SerializeBufferFull) => {}
            _ => panic!("SPEC: out-of-capacity must be reported as SerializeBufferFull"),
        }
    }

    /// collect_str encodes exactly like the formatted text: varint(total len) then the pieces
    struct D2 {
        a: [u8; 2],
        al: usize,
        b: [u8; 2],
        bl: usize,
    }
    impl core::fmt::Display for D2 {
        fn fmt(&self, f: &mut core::fmt::Formatter<'_>) -> core::fmt::Result {
            f.write_str(unsafe { core::str::from_utf8_unchecked(&self.a[..self.al]) })?;
            f.write_str(unsafe { core::str::from_utf8_unchecked(&self.b[..self.bl]) })
        }
    }
    #[kani::proof]
    #[kani::unwind(21)]
    fn emit_collect_str() {
        let d = D2 { a: kani::any(), al: kani::any(), b: kani::any(), bl: kani::any() };
        kani::assume(d.al <= 2 && d.bl <= 2);
        kani::assume(d.a[0] < 0x80 && d.a[1] < 0x80 && d.b[0] < 0x80 && d.b[1] < 0x80);
        let mut s = fresh();
        assert!((&mut s).collect_str(&d).is_ok());
        let mut e = Exp::new();
        e.varint64((d.al + d.bl) as u64);
        e.bytes(&d.a[..d.al]);
        e.bytes(&d.b[..d.bl]);
        same(s, &e);
    }

    /// collect_str when the Display impl hands over text through write_char (as `impl Display for char` does), incl. multi-byte chars
    struct D3 {
        c: char,
        a: [u8; 2],
        al: usize,
    }
    impl core::fmt::Display for D3 {
        fn fmt(&self, f: &mut core::fmt::Formatter<'_>) -> core::fmt::Result {
            use core::fmt::Write;
            f.write_char(self.c)?;
            f.write_str(unsafe { core::str::from_utf8_unchecked(&self.a[..self.al]) })
        }
    }
    #[kani::proof]
    #[kani::unwind(12)]
    fn emit_collect_str_char() {
        let d = D3 { c: kani::any(), a: kani::any(), al: kani::any() };
        kani::assume(d.al <= 2 && d.a[0] < 0x80 && d.a[1] < 0x80);
        let mut s = fresh();
        assert!((&mut s).collect_str(&d).is_ok());
        let mut u = [0u8; 4];
        let cl = d.c.encode_utf8(&mut u).len();
        kani::cover!(cl == 3);
        let mut e = Exp::new();
        e.varint64((cl + d.al) as u64);
        e.bytes(&u[..cl]);
        e.bytes(&d.a[..d.al]);
        same(s, &e);
    }
}
