// C06: contract of the COBS modifier flavour `Cobs<B>` (try_new / try_push / finalize), as one step of the abstract
// encoder machine M = (out, ci, n) of /verif/specs/cobs.rs, from an ARBITRARY state satisfying the representation
// invariant  I := ci < len <= cap  /\  1 <= n <= 254  /\  offset == n  /\  ci + n == len.
// The encoder state of the pinned cobs crate is made arbitrary through a cfg(kani) constructor appended to the
// scratch copy of cobs-0.2.3 (see registry.PREPARE).
#[cfg(kani)]
mod verif_cobs {
    use super::*;

    const W: usize = 272;

    #[kani::proof]
    fn cobs_step_slice() { step_contract(false) }

    /// Flavor::try_extend contract for Cobs<Slice>, one-byte block: the SAME step contract must hold when the byte arrives
    /// through try_extend(&[d]) (serialize_str / serialize_bytes deliver their payload that way). On the pinned tree Cobs
    /// has no try_extend override (trait default = byte-wise pushes); an override must meet the same contract.
    #[kani::proof]
    #[kani::unwind(3)]
    fn cobs_extend1_slice() { step_contract(true) }

    fn step_contract(via_extend: bool) {
        let orig: [u8; W] = kani::any();
        let mut arr = orig;
        let cap: usize = kani::any();
        let len: usize = kani::any();
        let ci: usize = kani::any();
        let n: usize = kani::any();
        kani::assume(cap <= W && len <= cap && ci < len && n >= 1 && n <= 254 && ci + n == len);
        let d: u8 = kani::any();
        let (res, ci2, n2, off2, len2);
        {
            let start = arr.as_mut_ptr();
            let flav = Slice { start, cursor: unsafe { start.add(len) }, end: unsafe { start.add(cap) }, _pl: PhantomData };
            let mut c = Cobs { flav, cobs: EncoderState::verif_new(ci, n as u8, n as u8) };
            res = if via_extend { c.try_extend(&[d]) } else { c.try_push(d) };
            let p = c.cobs.verif_parts();
            ci2 = p.0;
            n2 = p.1 as usize;
            off2 = p.2 as usize;
            len2 = c.flav.cursor as usize - c.flav.start as usize;
        }
        let k: usize = kani::any();
        kani::assume(k < W);
        kani::cover!(d == 0 && res.is_ok());
        kani::cover!(d != 0 && n == 254 && res.is_ok());
        kani::cover!(d != 0 && n == 253 && res.is_ok());
        kani::cover!(res.is_err());
        if d == 0 {
            // close the block: code byte := n, open a new block (placeholder) at len
            if len < cap {
                assert!(res.is_ok(), "SPEC: a zero byte needs one byte of capacity");
                assert!(ci2 == len && n2 == 1 && off2 == 1 && len2 == len + 1, "SPEC: machine state after a zero byte");
                let e = if k == ci { n as u8 } else if k == len { 0 } else { orig[k] };
                assert!(arr[k] == e, "SPEC: buffer effect of pushing a zero byte (code patch, new placeholder, frame)");
            } else {
                assert!(matches!(res, Err(Error::SerializeBufferFull)));
            }
        } else if n < 254 {
            if len < cap {
                assert!(res.is_ok());
                assert!(ci2 == ci && n2 == n + 1 && off2 == n + 1 && len2 == len + 1, "SPEC: machine state after a data byte");
                let e = if k == len { d } else { orig[k] };
                assert!(arr[k] == e, "SPEC: buffer effect of pushing a data byte (append, frame)");
            } else {
                assert!(matches!(res, Err(Error::SerializeBufferFull)));
            }
        } else {
            // n == 254: this byte completes a 254-byte run: code := 0xFF, append d, open a new block
            if len + 1 < cap {
                assert!(res.is_ok());
                assert!(ci2 == len + 1 && n2 == 1 && off2 == 1 && len2 == len + 2, "SPEC: machine state after completing a full block");
                let e = if k == ci { 0xFF } else if k == len { d } else if k == len + 1 { 0 } else { orig[k] };
                assert!(arr[k] == e, "SPEC: buffer effect of completing a 254-byte block");
            } else {
                assert!(matches!(res, Err(Error::SerializeBufferFull)), "SPEC: completing a full block needs two bytes of capacity");
            }
        }
        // C05 part: whatever happened, nothing at or beyond the capacity changed
        if k >= cap {
            assert!(arr[k] == orig[k], "a byte outside the buffer was written");
        }
    }

    #[kani::proof]
    fn cobs_new_finalize_slice() {
        let orig: [u8; W] = kani::any();
        let mut arr = orig;
        let cap: usize = kani::any();
        kani::assume(cap <= W);
        // try_new: one placeholder byte, default state
        {
            let r = Cobs::try_new(Slice::new(&mut arr[..cap]));
            match r {
                Ok(c) => {
                    assert!(cap >= 1);
                    let p = c.cobs.verif_parts();
                    assert!(p.0 == 0 && p.1 == 1 && p.2 == 1, "SPEC: initial encoder state");
                    assert!(c.flav.cursor as usize - c.flav.start as usize == 1, "SPEC: try_new reserves exactly the first code byte");
                }
                Err(e) => {
                    assert!(cap == 0 && matches!(e, Error::SerializeBufferFull));
                }
            }
        }
        // finalize from an arbitrary state: code byte := n, exactly one 0x00 appended, inner finalize returned
        let orig2 = arr;
        let len: usize = kani::any();
        let ci: usize = kani::any();
        let n: usize = kani::any();
        kani::assume(len <= cap && ci < len && n >= 1 && n <= 254 && ci + n == len);
        let out_len;
        {
            let start = arr.as_mut_ptr();
            let flav = Slice { start, cursor: unsafe { start.add(len) }, end: unsafe { start.add(cap) }, _pl: PhantomData };
            let c = Cobs { flav, cobs: EncoderState::verif_new(ci, n as u8, n as u8) };
            out_len = match c.finalize() {
                Ok(o) => Some(o.len()),
                Err(_) => None,
            };
        }
        let k: usize = kani::any();
        kani::assume(k < W);
        match out_len {
            Some(l) => {
                assert!(len < cap && l == len + 1, "SPEC: finalize appends exactly the sentinel");
                let e = if k == ci { n as u8 } else if k == len { 0 } else { orig2[k] };
                assert!(arr[k] == e, "SPEC: finalize patches the last code byte and appends 0x00");
            }
            None => assert!(len == cap, "SPEC: finalize fails only when no byte is left for the sentinel"),
        }
        if k >= cap {
            assert!(arr[k] == orig2[k], "a byte outside the buffer was written");
        }
    }

    /// same step contract over the fixed-capacity vector storage (small capacity: the storage contract C05.K.hvec carries the rest)
    #[kani::proof]
    #[kani::unwind(10)]
    fn cobs_step_hvec() {
        const B: usize = 6;
        let pre: [u8; B] = kani::any();
        let len: usize = kani::any();
        let ci: usize = kani::any();
        let n: usize = kani::any();
        kani::assume(len <= B && ci < len && n >= 1 && n <= B && ci + n == len);
        let mut hv = HVec::<B>::new();
        let mut i = 0;
        while i < B {
            if i < len {
                hv.try_push(pre[i]).unwrap();
            }
            i += 1;
        }
        let mut c = Cobs { flav: hv, cobs: EncoderState::verif_new(ci, n as u8, n as u8) };
        let d: u8 = kani::any();
        let res = c.try_push(d);
        let p = c.cobs.verif_parts();
        let out = c.flav.finalize().unwrap();
        let k: usize = kani::any();
        kani::assume(k < out.len());
        if len < B {
            assert!(res.is_ok());
            if d == 0 {
                assert!(p.0 == len && p.1 == 1 && out.len() == len + 1);
                assert!(out[k] == if k == ci { n as u8 } else if k == len { 0 } else { pre[k] });
            } else {
                assert!(p.0 == ci && p.1 as usize == n + 1 && out.len() == len + 1);
                assert!(out[k] == if k == len { d } else { pre[k] });
            }
        } else {
            assert!(matches!(res, Err(Error::SerializeBufferFull)));
        }
    }

    /// Flavor::try_extend contract for Cobs<Slice>, multi-byte blocks: extending with a block of <= 3 bytes equals pushing
    /// its bytes one by one (same Ok/Err, same encoder state, same output), from the states around every transition: a
    /// fresh block (n = 1), one byte before a full block (n = 253) and a full block (n = 254). Concrete states and a
    /// concrete initial buffer keep an override that uses bulk copies within CBMC's reach.
    fn extend_vs_pushes<const N: usize>() {
        const WE: usize = 262;
        let mut a1 = [0x55u8; WE];
        let mut a2 = [0x55u8; WE];
        let cap: usize = WE - 2;
        let (ci, n, len) = (0usize, N, N);
        let d: [u8; 3] = kani::any();
        let dl: usize = kani::any();
        kani::assume(dl <= 3);
        let (r1, p1, l1);
        {
            let start = a1.as_mut_ptr();
            let flav = Slice { start, cursor: unsafe { start.add(len) }, end: unsafe { start.add(cap) }, _pl: PhantomData };
            let mut c = Cobs { flav, cobs: EncoderState::verif_new(ci, n as u8, n as u8) };
            r1 = c.try_extend(&d[..dl]).is_ok();
            p1 = c.cobs.verif_parts();
            l1 = c.flav.cursor as usize - c.flav.start as usize;
        }
        let mut r2 = true;
        let (p2, l2) = {
            let start = a2.as_mut_ptr();
            let flav = Slice { start, cursor: unsafe { start.add(len) }, end: unsafe { start.add(cap) }, _pl: PhantomData };
            let mut c = Cobs { flav, cobs: EncoderState::verif_new(ci, n as u8, n as u8) };
            let mut i = 0;
            while i < dl {
                if c.try_push(d[i]).is_err() {
                    r2 = false;
                    break;
                }
                i += 1;
            }
            (c.cobs.verif_parts(), c.flav.cursor as usize - c.flav.start as usize)
        };
        assert!(r1 == r2, "SPEC: try_extend succeeds exactly when the byte-wise pushes do");
        if r1 {
            assert!(p1.0 == p2.0 && p1.1 == p2.1 && p1.2 == p2.2 && l1 == l2, "SPEC: encoder state after try_extend == after byte-wise pushes");
            // only the code byte (index 0) and the bytes from len on can differ from the initial buffer
            assert!(a1[0] == a2[0], "SPEC: code byte after try_extend == after byte-wise pushes");
            let mut k = N;
            while k < N + 5 {
                assert!(a1[k] == a2[k], "SPEC: output after try_extend == after byte-wise pushes");
                k += 1;
            }
        }
    }

    #[kani::proof]
    #[kani::unwind(6)]
    fn cobs_extend_equals_pushes_n1() { extend_vs_pushes::<1>() }
    #[kani::proof]
    #[kani::unwind(6)]
    fn cobs_extend_equals_pushes_n253() { extend_vs_pushes::<253>() }
    #[kani::proof]
    #[kani::unwind(6)]
    fn cobs_extend_equals_pushes_n254() { extend_vs_pushes::<254>() }
}
