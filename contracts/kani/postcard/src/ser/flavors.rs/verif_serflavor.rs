#[cfg(kani)]
mod verif_serflavor {
    use super::*;
    use crate::verif_ref::*;

    const W: usize = 12; // one array holds guard bytes + the window; the functions are loop-free, W is not a semantic bound

    /// C05: contract of ser::flavors::Slice::{new, try_extend, try_push, finalize} as a Hoare triple over a
    /// symbolic window [g, g+cap) of one array with symbolic previous contents:
    ///   try_extend(d) is Ok iff d.len() <= remaining, try_push Ok iff remaining >= 1, Err is SerializeBufferFull,
    ///   finalize returns exactly the written prefix, and EVERY byte that was not written keeps its old value
    ///   (inside the window, outside the window, on success and on failure).
    #[kani::proof]
    fn slice_contract() {
        let orig: [u8; W] = kani::any();
        let mut arr = orig;
        let g: usize = kani::any();
        let cap: usize = kani::any();
        kani::assume(g <= W && cap <= W - g);
        let data: [u8; 4] = kani::any();
        let dl: usize = kani::any();
        kani::assume(dl <= 4);
        let b: u8 = kani::any();
        let (r1, r2, used, out_ptr);
        {
            let mut s = Slice::new(&mut arr[g..g + cap]);
            r1 = s.try_extend(&data[..dl]);
            r2 = s.try_push(b);
            let out = s.finalize().unwrap();
            used = out.len();
            out_ptr = out.as_ptr() as usize;
        }
        let fit1 = dl <= cap;
        kani::cover!(fit1 && dl == cap && dl > 0);
        kani::cover!(!fit1);
        assert!(r1.is_ok() == fit1, "try_extend succeeds iff the block fits the remaining capacity");
        if let Err(e) = &r1 {
            assert!(matches!(e, Error::SerializeBufferFull));
        }
        let n1 = if fit1 { dl } else { 0 };
        let fit2 = n1 < cap;
        kani::cover!(fit1 && !fit2);
        assert!(r2.is_ok() == fit2, "try_push succeeds iff at least one byte of capacity remains");
        if let Err(e) = &r2 {
            assert!(matches!(e, Error::SerializeBufferFull));
        }
        let n2 = n1 + if fit2 { 1 } else { 0 };
        assert!(used == n2, "finalize returns exactly the bytes written");
        assert!(out_ptr == arr[g..].as_ptr() as usize, "output starts at the front of the buffer");
        let k: usize = kani::any();
        kani::assume(k < W);
        let expect = if k >= g && k < g + n1 {
            data[k - g]
        } else if fit2 && k == g + n1 {
            b
        } else {
            orig[k]
        };
        assert!(arr[k] == expect, "a byte outside the written range changed, or a written byte is wrong");
    }

    /// C05/C06 support: Index / IndexMut of Slice address the byte at absolute position idx of the buffer.
    #[kani::proof]
    fn slice_index() {
        let orig: [u8; W] = kani::any();
        let mut arr = orig;
        let g: usize = kani::any();
        let cap: usize = kani::any();
        kani::assume(g <= W && cap <= W - g && cap >= 1);
        let idx: usize = kani::any();
        kani::assume(idx < cap);
        let v: u8 = kani::any();
        let seen;
        {
            let mut s = Slice::new(&mut arr[g..g + cap]);
            seen = s[idx];
            s[idx] = v;
        }
        assert!(seen == orig[g + idx]);
        let k: usize = kani::any();
        kani::assume(k < W);
        assert!(arr[k] == if k == g + idx { v } else { orig[k] });
    }

    /// C05: HVec<B>: push/extend fail with SerializeBufferFull iff the result would exceed B; contents appended in order.
    #[kani::proof]
    #[kani::unwind(8)]
    fn hvec_contract() {
        const B: usize = 5;
        let data: [u8; 4] = kani::any();
        let dl: usize = kani::any();
        kani::assume(dl <= 4);
        let data2: [u8; 4] = kani::any();
        let dl2: usize = kani::any();
        kani::assume(dl2 <= 4);
        let b: u8 = kani::any();
        let mut s = HVec::<B>::new();
        let r1 = s.try_extend(&data[..dl]);
        assert!(r1.is_ok());
        let r2 = s.try_extend(&data2[..dl2]);
        let fit2 = dl + dl2 <= B;
        kani::cover!(!fit2);
        kani::cover!(dl + dl2 == B);
        assert!(r2.is_ok() == fit2);
        if let Err(e) = &r2 {
            assert!(matches!(e, Error::SerializeBufferFull));
        }
        let n = dl + if fit2 { dl2 } else { 0 };
        let r3 = s.try_push(b);
        let fit3 = n < B;
        assert!(r3.is_ok() == fit3);
        if let Err(e) = &r3 {
            assert!(matches!(e, Error::SerializeBufferFull));
        }
        let out = s.finalize().unwrap();
        assert!(out.len() == n + if fit3 { 1 } else { 0 });
        let k: usize = kani::any();
        kani::assume(k < out.len());
        let expect = if k < dl { data[k] } else if fit2 && k < dl + dl2 { data2[k - dl] } else { b };
        assert!(out[k] == expect);
    }

    /// C05: the size-measuring flavour counts exactly and writes nothing.
    #[kani::proof]
    fn size_contract() {
        let data: [u8; 4] = kani::any();
        let dl: usize = kani::any();
        kani::assume(dl <= 4);
        let pre: usize = kani::any();
        kani::assume(pre < usize::MAX / 2);
        let mut s = Size { size: pre };
        assert!(s.try_extend(&data[..dl]).is_ok());
        assert!(s.try_push(kani::any()).is_ok());
        assert!(s.finalize().unwrap() == pre + dl + 1);
        assert!(Size::default().finalize().unwrap() == 0);
    }

    /// A storage flavour WITHOUT a try_extend override, recording what it is given (capacity 6).
    pub(crate) struct Rec {
        pub buf: [u8; 6],
        pub len: usize,
        pub fail_at: usize,
        pub finalized: u8,
    }
    impl Flavor for Rec {
        type Output = ([u8; 6], usize);
        fn try_push(&mut self, data: u8) -> Result<()> {
            if self.len >= 6 || self.len >= self.fail_at {
                return Err(Error::SerializeBufferFull);
            }
            self.buf[self.len] = data;
            self.len += 1;
            Ok(())
        }
        fn finalize(self) -> Result<Self::Output> {
            Ok((self.buf, self.len))
        }
    }

    /// C20: the trait's default try_extend equals try_push for each byte, in order, stopping at the first error.
    #[kani::proof]
    #[kani::unwind(6)]
    fn default_extend() {
        let data: [u8; 4] = kani::any();
        let dl: usize = kani::any();
        kani::assume(dl <= 4);
        let fail_at: usize = kani::any();
        let mut r = Rec { buf: [0; 6], len: 0, fail_at, finalized: 0 };
        let res = r.try_extend(&data[..dl]);
        let ok = dl <= fail_at.min(6);
        kani::cover!(!ok);
        kani::cover!(ok && dl == 4);
        assert!(res.is_ok() == ok, "default try_extend fails iff some try_push fails");
        let n = if ok { dl } else { fail_at.min(6) };
        assert!(r.len == n, "default try_extend stops at the first failing push");
        let k: usize = kani::any();
        kani::assume(k < n);
        assert!(r.buf[k] == data[k], "default try_extend forwards the bytes in order");
    }
}
