// C08 witness (bounded): the real accumulator, driven by the documented feed loop, against decoding each zero-terminated
// segment in isolation, for every stream of <= 5 bytes and every way of cutting it into two feed calls. Its role is to give a
// concrete failing history when a Route-V clause of feed_ref breaks; the unbounded claim is the Verus unit `acc`.
#[cfg(kani)]
mod verif_acc {
    use super::*;

    /// Route-V stub D4: `input.iter().position(|&i| i == 0)` is the index of the first zero, or None if there is none
    #[kani::proof]
    #[kani::unwind(10)]
    fn position_zero_spec() {
        let b: [u8; 8] = kani::any();
        let l: usize = kani::any();
        kani::assume(l <= 8);
        let r = b[..l].iter().position(|&i| i == 0);
        let j: usize = kani::any();
        kani::assume(j < l);
        match r {
            Some(n) => {
                assert!(n < l && b[n] == 0);
                if j < n {
                    assert!(b[j] != 0);
                }
            }
            None => assert!(b[j] != 0),
        }
    }

    const N: usize = 4;
    const L: usize = 5;
    type Log = ([(u8, u8); L + 1], usize);

    fn drive(acc: &mut CobsAccumulator<N>, chunk: &[u8], log: &mut Log) {
        // the documented loop
        let mut window = chunk;
        let mut guard = 0;
        while !window.is_empty() {
            guard += 1;
            assert!(guard <= 2 * L + 2, "SPEC: the documented feed loop must make progress");
            window = match acc.feed::<u8>(window) {
                FeedResult::Consumed => break,
                FeedResult::OverFull(w) => {
                    log.0[log.1] = (3, 0);
                    log.1 += 1;
                    w
                }
                FeedResult::DeserError(w) => {
                    log.0[log.1] = (2, 0);
                    log.1 += 1;
                    w
                }
                FeedResult::Success { data, remaining } => {
                    log.0[log.1] = (1, data);
                    log.1 += 1;
                    remaining
                }
            };
        }
    }

    #[kani::proof]
    #[kani::unwind(14)]
    fn acc_small() {
        let stream: [u8; L] = kani::any();
        let len: usize = kani::any();
        kani::assume(len <= L);
        let cut: usize = kani::any();
        kani::assume(cut <= len);
        // C08 hypothesis: every zero-terminated segment (and the unterminated tail) fits the capacity
        let mut seg_len = 0;
        let mut i = 0;
        let mut fits = true;
        // reference: decode each segment in isolation
        let mut want: Log = ([(0, 0); L + 1], 0);
        let mut seg = [0u8; N + 1];
        while i < L {
            if i < len {
                if seg_len < N + 1 {
                    seg[seg_len] = stream[i];
                }
                seg_len += 1;
                if stream[i] == 0 {
                    if seg_len > N {
                        fits = false;
                    } else {
                        let mut copy = seg;
                        want.0[want.1] = match crate::from_bytes_cobs::<u8>(&mut copy[..seg_len]) {
                            Ok(v) => (1, v),
                            Err(_) => (2, 0),
                        };
                        want.1 += 1;
                    }
                    seg_len = 0;
                }
            }
            i += 1;
        }
        if seg_len > N {
            fits = false;
        }
        kani::assume(fits);
        kani::cover!(want.1 >= 2);
        let mut acc: CobsAccumulator<N> = CobsAccumulator::new();
        let mut got: Log = ([(0, 0); L + 1], 0);
        drive(&mut acc, &stream[..cut], &mut got);
        drive(&mut acc, &stream[cut..len], &mut got);
        assert!(got.1 == want.1, "SPEC: exactly one result per zero byte");
        let k: usize = kani::any();
        kani::assume(k < want.1);
        assert!(got.0[k] == want.0[k], "SPEC: the k-th result must equal decoding the k-th segment in isolation");
    }

    /// C09 witness: arbitrary garbage / over-long segments: no panic, idx stays in bounds, and a well-formed frame after any zero byte is delivered
    #[kani::proof]
    #[kani::unwind(14)]
    fn acc_garbage_then_frame() {
        let junk: [u8; L] = kani::any();
        let jl: usize = kani::any();
        kani::assume(jl <= L);
        let mut acc: CobsAccumulator<N> = CobsAccumulator::new();
        let mut log: Log = ([(0, 0); L + 1], 0);
        drive(&mut acc, &junk[..jl], &mut log);
        assert!(acc.idx <= N, "representation invariant idx <= N");
        // a zero byte resynchronises ...
        let mut l2: Log = ([(0, 0); L + 1], 0);
        drive(&mut acc, &[0u8], &mut l2);
        assert!(acc.idx == 0, "SPEC: back in the initial state after a zero byte");
        // ... so the frame of any u8 that follows is delivered intact
        let v: u8 = kani::any();
        let mut fb = [0u8; 4];
        let fl = crate::to_slice_cobs(&v, &mut fb).unwrap().len();
        let mut l3: Log = ([(0, 0); L + 1], 0);
        drive(&mut acc, &fb[..fl], &mut l3);
        assert!(l3.1 == 1 && l3.0[0] == (1, v), "SPEC: a well-formed frame after a zero byte must be delivered intact");
    }
}
