// C08 witness (bounded): the real accumulator, driven by the documented feed loop, against decoding each zero-terminated
// segment in isolation, for every stream of <= 5 bytes and every way of cutting it into two feed calls. Its role is to give a
// concrete failing history when a Route-V clause of feed_ref breaks; the unbounded claim is the Verus unit `acc`.
#[cfg(kani)]
mod verif_acc {
    use super::*;

    /// Route-V stub D4: `input.iter().position(|&i| i == 0)` is the index of the first zero, or None if there is none
    #[kani::proof]
    #[kani::unwind(10)]
    fn position_zero_spec() {
        let b: [u8; 8] = kani::any();
        let l: usize = kani::any();
        kani::assume(l <= 8);
        let r = b[..l].iter().position(|&i| i == 0);
        let j: usize = kani::any();
        kani::assume(j < l);
        match r {
            Some(n) => {
                assert!(n < l && b[n] == 0);
                if j < n {
                    assert!(b[j] != 0);
                }
            }
            None => assert!(b[j] != 0),
        }
    }

    const N: usize = 4;
    const L: usize = 4;

    /// One feed_ref call from an ARBITRARY accumulator state (idx <= N, symbolic buffer) on an arbitrary chunk of <= 4 bytes:
    /// the clauses of C08 and C09 exactly as they are stated as Verus postconditions (conserve, frame_fits, append_fits,
    /// reset, overfull, progress), with crate::from_bytes_cobs on a copy of view ++ segment as the isolated decoding.
    #[kani::proof]
    #[kani::unwind(7)]
    fn feed_ref_step() {
        let buf: [u8; N] = kani::any();
        let idx: usize = kani::any();
        kani::assume(idx <= N);
        let chunk: [u8; L] = kani::any();
        let len: usize = kani::any();
        kani::assume(len <= L);
        let input = &chunk[..len];
        // first zero of the chunk (len if none)
        let mut z = len;
        let mut i = 0;
        while i < L {
            if i < len && chunk[i] == 0 && z == len {
                z = i;
            }
            i += 1;
        }
        let mut acc = CobsAccumulator::<N> { buf, idx };
        let base = input.as_ptr() as usize;
        let (kind, data, rem_off, rem_len) = match acc.feed_ref::<u8>(input) {
            FeedResult::Consumed => (0u8, 0u8, len, 0usize),
            FeedResult::OverFull(r) => (3, 0, r.as_ptr() as usize - base, r.len()),
            FeedResult::DeserError(r) => (2, 0, r.as_ptr() as usize - base, r.len()),
            FeedResult::Success { data, remaining } => (1, data, remaining.as_ptr() as usize - base, remaining.len()),
        };
        let idx2 = acc.idx;
        kani::cover!(kind == 1);
        kani::cover!(kind == 3 && z < len);
        kani::cover!(kind == 3 && z == len);
        assert!(idx2 <= N, "representation invariant idx <= N");
        // C08 conserve: the remainder is a suffix of the chunk
        if kind != 0 {
            assert!(rem_off + rem_len == len, "SPEC: the returned remainder must be a suffix of the chunk");
        }
        if z < len && idx + z + 1 <= N {
            // C08 frame_fits: exactly the isolated decoding of view ++ segment; rest handed back; buffer reset
            let mut seg = [0u8; N];
            let mut k = 0;
            while k < N {
                if k < idx { seg[k] = buf[k]; } else if k < idx + z + 1 { seg[k] = chunk[k - idx]; }
                k += 1;
            }
            let want = crate::from_bytes_cobs::<u8>(&mut seg[..idx + z + 1]);
            match want {
                Ok(v) => assert!(kind == 1 && data == v, "SPEC: a terminated segment that fits must yield its isolated decoding"),
                Err(_) => assert!(kind == 2, "SPEC: an undecodable segment that fits must yield DeserError"),
            }
            assert!(rem_off == z + 1 && rem_len == len - z - 1, "SPEC: everything after the sentinel must be handed back");
            assert!(idx2 == 0, "SPEC: back in the initial state after a zero byte");
        } else if z == len && idx + len <= N {
            // C08 append_fits
            assert!(kind == 0, "SPEC: an unterminated piece that fits must be Consumed");
            assert!(idx2 == idx + len, "SPEC: ... and buffered completely");
            let j: usize = kani::any();
            kani::assume(j < idx2);
            assert!(acc.buf[j] == if j < idx { buf[j] } else { chunk[j - idx] }, "SPEC: buffered bytes must be view ++ chunk");
        } else if z < len {
            // C09 overfull with terminator
            assert!(kind == 3 && rem_off == z + 1, "SPEC: an over-long segment must be reported OverFull by the call that receives its sentinel");
            assert!(idx2 == 0, "SPEC: back in the initial state after a zero byte");
        } else {
            assert!(kind == 3, "SPEC: overflow without terminator must be reported OverFull");
        }
        // C09 progress
        if len > 0 {
            assert!(rem_len < len || (rem_len == len && idx == N && idx2 == 0), "SPEC: the documented loop must make progress");
        }
    }
}
