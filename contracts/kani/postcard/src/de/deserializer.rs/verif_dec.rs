#[cfg(kani)]
mod verif_dec {
    use super::*;
    use crate::verif_ref::*;

    macro_rules! dec_harness {
        ($name:ident, $ty:ty, $f:ident, $bits:expr, $len:expr) => {
            /// C03 (deciding): on EVERY byte string of length <= max+2 the varint reader agrees with
            /// the wire-format decoder: accept/reject, value, bytes consumed, error kind.
            #[kani::proof]
            #[kani::unwind(22)]
            fn $name() {
                let bytes: [u8; $len] = kani::any();
                let len: usize = kani::any();
                kani::assume(len <= $len);
                let input = &bytes[..len];
                let mut d = Deserializer::from_bytes(input);
                let got = d.$f();
                let rest = d.finalize().unwrap();
                let want = ref_dec(input, $bits);
                match (&got, &want) {
                    (Ok(v), Ok((w, used))) => {
                        kani::cover!(*used == max_len($bits));
                        kani::cover!(*used == 1);
                        assert!(*v as u128 == *w, "decoded value differs from the wire-format decoder");
                        assert!(rest.len() == len - *used, "consumed length differs");
                        assert!(rest.as_ptr() == input[*used..].as_ptr(), "remainder does not start right after the varint");
                    }
                    (Err(e), Err(f)) => {
                        kani::cover!(matches!(f, Error::DeserializeBadVarint));
                        kani::cover!(matches!(f, Error::DeserializeUnexpectedEnd));
                        assert!(err_code(e) == err_code(f), "error kind differs from the first violated rule");
                    }
                    (Ok(_), Err(_)) => panic!("accepted an encoding the specification forbids"),
                    (Err(_), Ok(_)) => panic!("rejected an encoding the specification permits"),
                }
            }
        };
    }
    dec_harness!(dec_u16, u16, try_take_varint_u16, 16, 5);
    dec_harness!(dec_u32, u32, try_take_varint_u32, 32, 7);
    dec_harness!(dec_u64, u64, try_take_varint_u64, 64, 12);
    dec_harness!(dec_u128, u128, try_take_varint_u128, 128, 21);
    dec_harness!(dec_usize, usize, try_take_varint_usize, 64, 12);

    macro_rules! unzz_harness {
        ($name:ident, $uty:ty, $f:ident) => {
            /// C03 (deciding): inverse zig-zag returns precisely the encoded value: even u -> u/2, odd u -> -(u+1)/2
            #[kani::proof]
            fn $name() {
                let u: $uty = kani::any();
                kani::cover!(u % 2 == 1);
                assert!($f(u) as i128 == ref_unzz(u as u128), "inverse zig-zag differs from the wire-format definition");
            }
        };
    }
    unzz_harness!(unzz_i16, u16, de_zig_zag_i16);
    unzz_harness!(unzz_i32, u32, de_zig_zag_i32);
    unzz_harness!(unzz_i64, u64, de_zig_zag_i64);
    unzz_harness!(unzz_i128, u128, de_zig_zag_i128);
}
