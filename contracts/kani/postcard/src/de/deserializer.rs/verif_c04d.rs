#[cfg(kani)]
mod verif_c04d {
    use super::*;

    struct NoVisit;
    impl<'de> Visitor<'de> for NoVisit {
        type Value = ();
        fn expecting(&self, f: &mut core::fmt::Formatter) -> core::fmt::Result {
            f.write_str("nothing")
        }
    }

    /// C04: requests the format cannot serve are refused with an error, never a panic
    #[kani::proof]
    #[kani::unwind(8)]
    fn wont_implement() {
        let b: [u8; 4] = kani::any();
        let l: usize = kani::any();
        kani::assume(l <= 4);
        let mut d = Deserializer::from_bytes(&b[..l]);
        assert!(de::Deserializer::deserialize_any(&mut d, NoVisit).is_err(), "SPEC: deserialize_any must be refused");
        assert!(de::Deserializer::deserialize_identifier(&mut d, NoVisit).is_err(), "SPEC: deserialize_identifier must be refused");
        assert!(de::Deserializer::deserialize_ignored_any(&mut d, NoVisit).is_err(), "SPEC: deserialize_ignored_any must be refused");
    }
    #[kani::proof]
    #[kani::unwind(8)]
    fn wont_implement_kind() {
        let b: [u8; 4] = kani::any();
        let mut d = Deserializer::from_bytes(&b[..]);
        assert!(matches!(de::Deserializer::deserialize_any(&mut d, NoVisit), Err(Error::WontImplement)));
        assert!(matches!(de::Deserializer::deserialize_identifier(&mut d, NoVisit), Err(Error::WontImplement)));
        assert!(matches!(de::Deserializer::deserialize_ignored_any(&mut d, NoVisit), Err(Error::WontImplement)));
        assert!(d.finalize().unwrap().len() == 4);
    }

    /// C04: the sequence size hint never exceeds the number of bytes left in the input, whatever length was claimed,
    /// so nothing is pre-allocated from a claimed length the input cannot back.
    #[kani::proof]
    fn seq_size_hint() {
        let b: [u8; 6] = kani::any();
        let l: usize = kani::any();
        kani::assume(l <= 6);
        let mut d = Deserializer::from_bytes(&b[..l]);
        let claimed: usize = kani::any();
        let sa = SeqAccess { deserializer: &mut d, len: claimed };
        kani::cover!(claimed > l);
        kani::cover!(claimed <= l);
        match serde::de::SeqAccess::size_hint(&sa) {
            Some(h) => assert!(h <= l, "SPEC: size hint larger than the bytes left in the input"),
            None => {}
        }
    }
    /// supporting (stronger than the property): the exact claimed length is offered when it fits
    #[kani::proof]
    fn seq_size_hint_exact() {
        let b: [u8; 6] = kani::any();
        let mut d = Deserializer::from_bytes(&b[..]);
        let claimed: usize = kani::any();
        let sa = SeqAccess { deserializer: &mut d, len: claimed };
        assert!(serde::de::SeqAccess::size_hint(&sa) == if claimed <= 6 { Some(claimed) } else { None });
    }
}
