#[cfg(kani)]
mod verif_c04d {
    use super::*;

    struct NoVisit;
    impl<'de> Visitor<'de> for NoVisit {
        type Value = ();
        fn expecting(&self, f: &mut core::fmt::Formatter) -> core::fmt::Result {
            f.write_str("nothing")
        }
    }

    /// C04: requests the format cannot serve are refused with an error, never a panic
    #[kani::proof]
    #[kani::unwind(8)]
    fn wont_implement() {
        let b: [u8; 4] = kani::any();
        let l: usize = kani::any();
        kani::assume(l <= 4);
        let mut d = Deserializer::from_bytes(&b[..l]);
        assert!(de::Deserializer::deserialize_any(&mut d, NoVisit).is_err(), "SPEC: deserialize_any must be refused");
        assert!(de::Deserializer::deserialize_identifier(&mut d, NoVisit).is_err(), "SPEC: deserialize_identifier must be refused");
        assert!(de::Deserializer::deserialize_ignored_any(&mut d, NoVisit).is_err(), "SPEC: deserialize_ignored_any must be refused");
    }
    #[kani::proof]
    #[kani::unwind(8)]
    fn wont_implement_kind() {
        let b: [u8; 4] = kani::any();
        let mut d = Deserializer::from_bytes(&b[..]);
        assert!(matches!(de::Deserializer::deserialize_any(&mut d, NoVisit), Err(Error::WontImplement)));
        assert!(matches!(de::Deserializer::deserialize_identifier(&mut d, NoVisit), Err(Error::WontImplement)));
        assert!(matches!(de::Deserializer::deserialize_ignored_any(&mut d, NoVisit), Err(Error::WontImplement)));
        assert!(d.finalize().unwrap().len() == 4);
    }

    /// C04: the sequence size hint never exceeds the number of bytes left in the input, whatever length was claimed,
    /// so nothing is pre-allocated from a claimed length the input cannot back.
    #[kani::proof]
    fn seq_size_hint() {
        let b: [u8; 6] = kani::any();
        let l: usize = kani::any();
        kani::assume(l <= 6);
        let mut d = Deserializer::from_bytes(&b[..l]);
        let claimed: usize = kani::any();
        let sa = SeqAccess { deserializer: &mut d, len: claimed };
        kani::cover!(claimed > l);
        kani::cover!(claimed <= l);
        match serde::de::SeqAccess::size_hint(&sa) {
            Some(h) => assert!(h <= l, "SPEC: size hint larger than the bytes left in the input"),
            None => {}
        }
    }
    /// supporting (stronger than the property): the exact claimed length is offered when it fits
    #[kani::proof]
    fn seq_size_hint_exact() {
        let b: [u8; 6] = kani::any();
        let mut d = Deserializer::from_bytes(&b[..]);
        let claimed: usize = kani::any();
        let sa = SeqAccess { deserializer: &mut d, len: claimed };
        assert!(serde::de::SeqAccess::size_hint(&sa) == if claimed <= 6 { Some(claimed) } else { None });
    }

    /// C01/C03: contract of SeqAccess::next_element_seed for EVERY remaining count (full usize domain, loop-free):
    /// yields exactly one element and decrements the count by one while it is > 0, then None without consuming anything.
    #[kani::proof]
    #[kani::unwind(4)]
    fn seq_access_contract() {
        let b: [u8; 3] = kani::any();
        let mut d = Deserializer::from_bytes(&b[..]);
        let len: usize = kani::any();
        let mut sa = SeqAccess { deserializer: &mut d, len };
        let r = serde::de::SeqAccess::next_element_seed(&mut sa, PhantomData::<u8>);
        kani::cover!(len == 0);
        kani::cover!(len >= 128);
        if len == 0 {
            assert!(matches!(r, Ok(None)), "SPEC: an exhausted sequence must yield None");
            assert!(sa.len == 0);
            assert!(d.finalize().unwrap().len() == 3, "SPEC: ... without consuming input");
        } else {
            assert!(r == Ok(Some(b[0])), "SPEC: a sequence with elements left must yield the next element");
            assert!(sa.len == len - 1, "SPEC: ... and count it exactly once");
            assert!(d.finalize().unwrap().len() == 2);
        }
    }
    /// same for MapAccess: a key while entries are left (count decremented once), the value never touches the count
    #[kani::proof]
    #[kani::unwind(4)]
    fn map_access_contract() {
        let b: [u8; 3] = kani::any();
        let mut d = Deserializer::from_bytes(&b[..]);
        let len: usize = kani::any();
        let mut ma = MapAccess { deserializer: &mut d, len };
        let k = serde::de::MapAccess::next_key_seed(&mut ma, PhantomData::<u8>);
        if len == 0 {
            assert!(matches!(k, Ok(None)) && ma.len == 0, "SPEC: an exhausted map must yield no key");
        } else {
            assert!(k == Ok(Some(b[0])) && ma.len == len - 1, "SPEC: next_key must yield the next key and count the entry once");
            let v = serde::de::MapAccess::next_value_seed(&mut ma, PhantomData::<u8>);
            assert!(v == Ok(b[1]) && ma.len == len - 1, "SPEC: next_value must yield the value that follows the key");
        }
    }
    /// deserialize_seq / deserialize_map hand the decoded varint(usize) count to the visitor unchanged; tuples / structs the static arity
    struct LenProbe;
    impl<'de> Visitor<'de> for LenProbe {
        type Value = usize;
        fn expecting(&self, f: &mut core::fmt::Formatter) -> core::fmt::Result {
            f.write_str("len")
        }
        fn visit_seq<A: serde::de::SeqAccess<'de>>(self, a: A) -> core::result::Result<usize, A::Error> {
            Ok(a.size_hint().unwrap_or(usize::MAX))
        }
        fn visit_map<A: serde::de::MapAccess<'de>>(self, a: A) -> core::result::Result<usize, A::Error> {
            Ok(a.size_hint().unwrap_or(usize::MAX))
        }
    }
    #[kani::proof]
    #[kani::unwind(12)]
    fn seq_len_passed_through() {
        let n: usize = kani::any();
        let mut buf = [0u8; 16];
        let mut tmp = [0u8; 10];
        let enc = crate::varint::varint_usize(n, &mut tmp);
        let l = enc.len();
        let mut i = 0;
        while i < 10 {
            if i < l { buf[i] = enc[i]; }
            i += 1;
        }
        // map: the count reaches the visitor unchanged (MapAccess::size_hint is Some(len))
        let mut d = Deserializer::from_bytes(&buf[..]);
        let got = de::Deserializer::deserialize_map(&mut d, LenProbe).unwrap();
        assert!(got == n, "SPEC: deserialize_map must hand the encoded entry count to the visitor");
        // tuple / struct: the static arity
        let mut d2 = Deserializer::from_bytes(&buf[..2]);
        let k: usize = kani::any();
        kani::assume(k <= 2);
        let got2 = de::Deserializer::deserialize_tuple(&mut d2, k, LenProbe).unwrap();
        assert!(got2 == k, "SPEC: deserialize_tuple must use the static arity");
    }

    /// C01/C03: the enum discriminant is read as varint(u32) - for EVERY byte string <= 7 the variant index handed to serde, the
    /// bytes consumed and the error kind equal the wire-format decoder's (covers indices >= 128, padded indices, u32::MAX)
    #[kani::proof]
    #[kani::unwind(8)]
    fn variant_index_contract() {
        use crate::verif_ref::*;
        let b: [u8; 7] = kani::any();
        let l: usize = kani::any();
        kani::assume(l <= 7);
        let inp = &b[..l];
        let mut d = Deserializer::from_bytes(inp);
        let got = match serde::de::EnumAccess::variant_seed(&mut d, PhantomData::<u32>) {
            Ok((idx, _rest)) => Ok(idx),
            Err(e) => Err(e),
        };
        let rest = d.finalize().unwrap().len();
        match (got, ref_dec(inp, 32)) {
            (Ok(idx), Ok((w, used))) => {
                kani::cover!(w >= 128);
                assert!(idx as u128 == w, "SPEC: variant index differs from the varint(u32) on the wire");
                assert!(rest == l - used, "SPEC: reading the variant index consumed a different number of bytes than its varint");
            }
            (Err(e), Err(f)) => assert!(err_code(&e) == err_code(&f), "SPEC: error kind differs"),
            _ => panic!("SPEC: accept/reject of the variant index differs from the wire-format decoder"),
        }
    }
}
