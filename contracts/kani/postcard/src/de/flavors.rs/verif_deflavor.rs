#[cfg(kani)]
mod verif_deflavor {
    use super::*;

    const W: usize = 12;

    /// C03/C04: contract of de::flavors::Slice over a symbolic window [g, g+len) of one array:
    ///   pop:  Err(UnexpectedEnd) iff empty, else the first byte, cursor + 1
    ///   try_take_n(ct): Err(UnexpectedEnd) iff remaining < ct, else exactly the ct bytes at the cursor (same address), cursor + ct
    ///   finalize: exactly the unread tail (same address, same length)
    /// every returned reference lies inside the window at the position it was read from; CBMC checks every
    /// pointer dereference, so a read outside the input is a failed check.
    #[kani::proof]
    fn slice_contract() {
        let arr: [u8; W] = kani::any();
        let g: usize = kani::any();
        let len: usize = kani::any();
        kani::assume(g <= W && len <= W - g);
        let input = &arr[g..g + len];
        let base = input.as_ptr() as usize;
        let mut s = Slice::new(input);
        assert!(s.size_hint() == Some(len));
        // pop
        let r = s.pop();
        let n1 = if len == 0 {
            assert!(matches!(r, Err(Error::DeserializeUnexpectedEnd)), "SPEC: pop on empty input must be UnexpectedEnd");
            0
        } else {
            assert!(r == Ok(arr[g]), "SPEC: pop must return the first unread byte");
            1
        };
        // try_take_n
        let ct: usize = kani::any();
        let r2 = s.try_take_n(ct);
        let remain = len - n1;
        kani::cover!(ct == remain && ct > 0);
        kani::cover!(ct > remain);
        let n2 = match r2 {
            Ok(sl) => {
                assert!(ct <= remain, "SPEC: try_take_n must fail when fewer than ct bytes remain");
                assert!(sl.len() == ct);
                assert!(sl.as_ptr() as usize == base + n1, "SPEC: borrowed bytes must lie in the input where they were encoded");
                n1 + ct
            }
            Err(e) => {
                assert!(ct > remain, "SPEC: try_take_n must succeed when ct bytes remain");
                assert!(matches!(e, Error::DeserializeUnexpectedEnd));
                n1
            }
        };
        assert!(s.size_hint() == Some(len - n2));
        let rest = s.finalize().unwrap();
        assert!(rest.len() == len - n2, "SPEC: finalize must return exactly the unread tail");
        assert!(rest.as_ptr() as usize == base + n2);
    }
}
