// C01: round trip through the PUBLIC API is the identity, remainder handed back untouched.
#[cfg(kani)]
mod verif_c01 {
    use crate::verif_probes::*;
    use crate::*;
    use serde::{Deserialize, Serialize};

    fn rt<T>(v: &T)
    where
        T: Serialize + for<'de> Deserialize<'de> + PartialEq,
    {
        let mut buf = [0u8; 40];
        let used = to_slice(v, &mut buf[..36]).unwrap().len();
        let t0: u8 = kani::any();
        let t1: u8 = kani::any();
        buf[used] = t0;
        buf[used + 1] = t1;
        let (w, rest) = take_from_bytes::<T>(&buf[..used + 2]).unwrap();
        assert!(w == *v, "decoded value differs from the encoded one");
        assert!(rest.len() == 2 && rest[0] == t0 && rest[1] == t1, "remainder is not exactly the bytes that follow the encoding");
    }

    macro_rules! rt_any {
        ($name:ident, $ty:ty, $unw:expr) => {
            #[kani::proof]
            #[kani::unwind($unw)]
            fn $name() {
                let v: $ty = kani::any();
                rt(&v);
            }
        };
    }
    rt_any!(rt_bool, bool, 3);
    rt_any!(rt_i8, i8, 3);
    rt_any!(rt_u8, u8, 3);
    rt_any!(rt_i16, i16, 5);
    rt_any!(rt_u16, u16, 5);
    rt_any!(rt_i32, i32, 7);
    rt_any!(rt_u32, u32, 7);
    rt_any!(rt_i64, i64, 12);
    rt_any!(rt_u64, u64, 12);
    rt_any!(rt_i128, i128, 21);
    rt_any!(rt_u128, u128, 21);
    rt_any!(rt_usize, usize, 12);
    rt_any!(rt_isize, isize, 12);
    rt_any!(rt_unit, (), 3);
    rt_any!(rt_option, Option<i32>, 7);
    rt_any!(rt_unit_struct, PUnit, 3);
    rt_any!(rt_newtype_struct, PNew, 12);
    rt_any!(rt_tuple_struct, PTup, 5);
    rt_any!(rt_tuple, (u8, u16, bool), 5);
    rt_any!(rt_enum, PE, 7);
    rt_any!(rt_struct, PS, 7);
    rt_any!(rt_array, [u16; 3], 8);

    macro_rules! rt_char_len {
        ($name:ident, $len:expr) => {
            /// char round trip, all scalar values whose UTF-8 form has this length
            #[kani::proof]
            #[kani::unwind(7)]
            fn $name() {
                let v: char = kani::any();
                kani::assume(v.len_utf8() == $len);
                rt(&v);
            }
        };
    }
    rt_char_len!(rt_char_1, 1);
    rt_char_len!(rt_char_2, 2);
    rt_char_len!(rt_char_3, 3);
    rt_char_len!(rt_char_4, 4);

    /// floats: compared bit for bit (NaN payloads, signed zeros)
    #[kani::proof]
    #[kani::unwind(10)]
    fn rt_f32() {
        let bits: u32 = kani::any();
        let v = f32::from_bits(bits);
        let mut buf = [0u8; 8];
        let used = to_slice(&v, &mut buf[..6]).unwrap().len();
        assert!(used == 4);
        let t: u8 = kani::any();
        buf[4] = t;
        let (w, rest) = take_from_bytes::<f32>(&buf[..5]).unwrap();
        assert!(w.to_bits() == bits, "f32 bit pattern not preserved");
        assert!(rest.len() == 1 && rest[0] == t);
    }
    #[kani::proof]
    #[kani::unwind(10)]
    fn rt_f64() {
        let bits: u64 = kani::any();
        let v = f64::from_bits(bits);
        let mut buf = [0u8; 12];
        let used = to_slice(&v, &mut buf[..10]).unwrap().len();
        assert!(used == 8);
        let t: u8 = kani::any();
        buf[8] = t;
        let (w, rest) = take_from_bytes::<f64>(&buf[..9]).unwrap();
        assert!(w.to_bits() == bits, "f64 bit pattern not preserved");
        assert!(rest.len() == 1 && rest[0] == t);
    }

    /// str / bytes / struct with borrowed fields; lengths <= 3 (input-length bound)
    #[kani::proof]
    #[kani::unwind(7)]
    fn rt_borrowed() {
        let sb: [u8; 3] = kani::any();
        let sl: usize = kani::any();
        kani::assume(sl <= 3);
        kani::assume(sb[0] < 0x80 && sb[1] < 0x80 && sb[2] < 0x80);
        let s = unsafe { core::str::from_utf8_unchecked(&sb[..sl]) }; // ASCII by the assumption above
        let bb: [u8; 3] = kani::any();
        let bl: usize = kani::any();
        kani::assume(bl <= 3);
        let v = PB { k: kani::any(), s, b: &bb[..bl] };
        let mut buf = [0u8; 16];
        let used = to_slice(&v, &mut buf[..12]).unwrap().len();
        let t: u8 = kani::any();
        buf[used] = t;
        let (w, rest) = take_from_bytes::<PB>(&buf[..used + 1]).unwrap();
        assert!(w.k == v.k);
        assert!(w.s.len() == sl && w.b.len() == bl);
        let i: usize = kani::any();
        kani::assume(i < 3);
        if i < sl {
            assert!(w.s.as_bytes()[i] == sb[i]);
        }
        if i < bl {
            assert!(w.b[i] == bb[i]);
        }
        assert!(rest.len() == 1 && rest[0] == t);
    }

    /// sequences and maps through heapless (len <= 2: element-count bound)
    #[kani::proof]
    #[kani::unwind(8)]
    fn rt_seq() {
        let mut v: heapless::Vec<u16, 3> = heapless::Vec::new();
        let n: usize = kani::any();
        kani::assume(n <= 2);
        let e0: u16 = kani::any();
        let e1: u16 = kani::any();
        if n >= 1 {
            v.push(e0).unwrap();
        }
        if n >= 2 {
            v.push(e1).unwrap();
        }
        let mut buf = [0u8; 12];
        let used = to_slice(&v, &mut buf[..10]).unwrap().len();
        let t: u8 = kani::any();
        buf[used] = t;
        let (w, rest) = take_from_bytes::<heapless::Vec<u16, 3>>(&buf[..used + 1]).unwrap();
        assert!(w.len() == n);
        if n >= 1 {
            assert!(w[0] == e0);
        }
        if n >= 2 {
            assert!(w[1] == e1);
        }
        assert!(rest.len() == 1 && rest[0] == t);
    }

    /// C01 entry-point pairing: every encode entry produces the same bytes as to_slice ...
    fn same_bytes(a: &[u8], b: &[u8]) {
        assert!(a.len() == b.len(), "encode entry points disagree on length");
        let i: usize = kani::any();
        kani::assume(i < a.len());
        assert!(a[i] == b[i], "encode entry points disagree");
    }
    #[kani::proof]
    #[kani::unwind(10)]
    fn entry_to_vec() {
        let v: PE = kani::any();
        let mut buf = [0u8; 10];
        let used = to_slice(&v, &mut buf).unwrap();
        let hv: heapless::Vec<u8, 10> = to_vec(&v).unwrap();
        same_bytes(used, &hv);
    }
    #[kani::proof]
    #[kani::unwind(10)]
    fn entry_to_extend() {
        let v: PE = kani::any();
        let mut buf = [0u8; 10];
        let used = to_slice(&v, &mut buf).unwrap();
        let ev: heapless::Vec<u8, 10> = to_extend(&v, heapless::Vec::<u8, 10>::new()).unwrap();
        same_bytes(used, &ev);
    }
    #[kani::proof]
    #[kani::unwind(10)]
    fn entry_to_allocvec() {
        let v: PTup = kani::any();
        let mut buf = [0u8; 6];
        let used = to_slice(&v, &mut buf).unwrap();
        let av = to_allocvec(&v).unwrap();
        same_bytes(used, &av);
        core::mem::forget(av);
    }
    #[kani::proof]
    #[kani::unwind(10)]
    fn entry_to_io() {
        let v: PTup = kani::any();
        let mut buf = [0u8; 6];
        let used = to_slice(&v, &mut buf).unwrap();
        let mut iobuf = [0u8; 6];
        let left = {
            let w: &mut [u8] = &mut iobuf[..];
            to_io(&v, w).unwrap().len()
        };
        same_bytes(used, &iobuf[..6 - left]);
    }
    /// ... and every decode entry returns the same value / remainder on them.
    #[kani::proof]
    #[kani::unwind(10)]
    fn entry_decoders() {
        let v: PTup = kani::any();
        let mut buf = [0u8; 6];
        let used = to_slice(&v, &mut buf[..4]).unwrap().len();
        let a: PTup = from_bytes(&buf[..used + 2]).unwrap();
        let (b, rest) = take_from_bytes::<PTup>(&buf[..used + 2]).unwrap();
        let mut scratch = [0u8; 2];
        let (c, (rd, _sc)) = from_io::<PTup, &[u8]>((&buf[..used + 2], &mut scratch[..])).unwrap();
        assert!(a == v && b == v && c == v, "decode entry points disagree");
        assert!(rest.len() == 2 && rd.len() == 2, "a decode entry consumed more or less than the message");
    }
}
