// C04: decoding arbitrary bytes is total and in bounds. These harnesses contain NO specification assertion about
// values: a failure is a panic, an arithmetic overflow or a pointer/bounds violation inside the real code.
#[cfg(kani)]
mod verif_c04 {
    use crate::verif_probes::*;
    use crate::*;

    fn inside(outer: &[u8], p: *const u8, len: usize) -> bool {
        let a = outer.as_ptr() as usize;
        let q = p as usize;
        q >= a && q + len <= a + outer.len()
    }

    #[kani::proof]
    #[kani::unwind(8)]
    fn total_struct() {
        let b: [u8; 18] = kani::any();
        let l: usize = kani::any();
        kani::assume(l <= 18);
        let inp = &b[..l];
        if let Ok((_v, rest)) = take_from_bytes::<PS>(inp) {
            assert!(inside(inp, rest.as_ptr(), rest.len()), "remainder is not inside the input");
            assert!(rest.as_ptr() as usize + rest.len() == inp.as_ptr() as usize + l, "remainder is not a suffix of the input");
        }
    }

    #[kani::proof]
    #[kani::unwind(8)]
    fn total_borrowed() {
        let b: [u8; 6] = kani::any();
        let l: usize = kani::any();
        kani::assume(l <= 6);
        let inp = &b[..l];
        if let Ok((v, rest)) = take_from_bytes::<PB>(inp) {
            assert!(inside(inp, v.s.as_ptr(), v.s.len()), "borrowed str is not inside the input");
            assert!(inside(inp, v.b.as_ptr(), v.b.len()), "borrowed bytes are not inside the input");
            assert!(v.s.as_ptr() as usize + v.s.len() <= v.b.as_ptr() as usize || v.b.is_empty() || v.s.is_empty(), "borrowed fields overlap / out of encoding order");
            assert!(inside(inp, rest.as_ptr(), rest.len()));
        }
    }

    #[kani::proof]
    #[kani::unwind(22)]
    fn total_scalars() {
        let b: [u8; 21] = kani::any();
        let l: usize = kani::any();
        kani::assume(l <= 21);
        let inp = &b[..l];
        let _ = take_from_bytes::<u128>(inp);
        let _ = take_from_bytes::<i128>(inp);
        let _ = take_from_bytes::<(u64, i64)>(inp);
        let _ = take_from_bytes::<(bool, f32, f64)>(inp);
    }

    #[kani::proof]
    #[kani::unwind(12)]
    fn total_seq() {
        let b: [u8; 8] = kani::any();
        let l: usize = kani::any();
        kani::assume(l <= 8);
        let inp = &b[..l];
        // a huge claimed length must not reserve / write beyond the fixed capacity, nor panic
        let _ = take_from_bytes::<heapless::Vec<u16, 2>>(inp);
        let _ = take_from_bytes::<[u8; 3]>(inp);
    }

    #[kani::proof]
    #[kani::unwind(8)]
    fn total_kinds() {
        // option, unit, enum, unit/newtype/tuple structs: every byte string up to the longest encoding (probe enum: 7)
        let b: [u8; 7] = kani::any();
        let l: usize = kani::any();
        kani::assume(l <= 7);
        let inp = &b[..l];
        let _ = take_from_bytes::<Option<Option<u8>>>(inp);
        let _ = take_from_bytes::<()>(inp);
        let _ = take_from_bytes::<PE>(inp);
        let _ = take_from_bytes::<(PUnit, PNew, PTup)>(inp);
    }

    #[kani::proof]
    #[kani::unwind(7)]
    fn total_char() {
        // a char is a length byte + at most 4 bytes; one more byte covers "trailing data"
        let b: [u8; 6] = kani::any();
        let l: usize = kani::any();
        kani::assume(l <= 6);
        let inp = &b[..l];
        let _ = take_from_bytes::<char>(inp);
    }
}
