// Executable reference ("oracle") functions written from spec/src/wire-format.md and the
// property statements -- never from the implementation.  Used by the Kani harness modules.
// The same definitions exist as Verus spec functions in /verif/specs (bridge: unit `bridge`).
#[cfg(kani)]
#[allow(dead_code)]
pub(crate) mod verif_ref {
    use crate::Error;

    /// ceil(bits / 7)
    pub const fn max_len(bits: u32) -> usize {
        ((bits + 6) / 7) as usize
    }

    /// Canonical unsigned LEB128 of `n`: minimal length, little-endian 7-bit groups,
    /// continuation flag (0x80) on every byte but the last. Returns the length.
    pub fn ref_enc(n: u128, out: &mut [u8; 19]) -> usize {
        let mut v = n;
        let mut i = 0;
        while i < 19 {
            let low = (v & 0x7f) as u8; // least significant seven data bits first
            v >>= 7;
            if v == 0 {
                out[i] = low; // last byte: continuation flag clear
                return i + 1;
            }
            out[i] = low | 0x80; // continuation flag set
            i += 1;
        }
        19
    }

    /// same, for values of at most 64 bits (at most 10 bytes) - cheaper for the model checker
    pub fn ref_enc64(n: u64, out: &mut [u8; 10]) -> usize {
        let mut v = n;
        let mut i = 0;
        while i < 10 {
            let low = (v & 0x7f) as u8;
            v >>= 7;
            if v == 0 {
                out[i] = low;
                return i + 1;
            }
            out[i] = low | 0x80;
            i += 1;
        }
        10
    }

    /// zig-zag: n >= 0 -> 2n ; n < 0 -> -2n - 1   (as a `bits`-wide unsigned)
    pub fn ref_zz(n: i128, bits: u32) -> u128 {
        let mask: u128 = if bits == 128 { u128::MAX } else { (1u128 << bits) - 1 };
        if n >= 0 {
            ((n as u128) * 2) & mask
        } else {
            // -2n - 1 == 2*(-(n+1)) + 1, computed without overflow
            (((-(n + 1)) as u128) * 2 + 1) & mask
        }
    }

    /// inverse zig-zag on a `bits`-wide unsigned: even u -> u/2 ; odd u -> -(u+1)/2
    pub fn ref_unzz(u: u128) -> i128 {
        if u % 2 == 0 {
            (u / 2) as i128
        } else {
            -((u / 2) as i128) - 1
        }
    }

    /// Wire-format varint(N) decoder: at most ceil(N/7) bytes, value must fit in N bits.
    /// Returns Ok((value, consumed)).
    pub fn ref_dec(bytes: &[u8], bits: u32) -> Result<(u128, usize), Error> {
        let max = max_len(bits);
        let spare = bits % 7; // data bits allowed in the last permitted byte (0 means 7)
        let mut v: u128 = 0;
        let mut i = 0;
        while i < max {
            if i >= bytes.len() {
                return Err(Error::DeserializeUnexpectedEnd);
            }
            let b = bytes[i];
            let group = (b & 0x7f) as u128;
            if 7 * i < 128 {
                v |= group << (7 * i);
            }
            if b & 0x80 == 0 {
                if i == max - 1 && spare != 0 && (b as u32) >= (1u32 << spare) {
                    return Err(Error::DeserializeBadVarint); // exceeds the maximum value of the type
                }
                return Ok((v, i + 1));
            }
            i += 1;
        }
        Err(Error::DeserializeBadVarint) // exceeds the maximum encoded length
    }

    /// Standard COBS (Cheshire & Baker) encoder, WITHOUT the trailing sentinel.
    /// Written from the definition: the message followed by a phantom zero is cut into
    /// blocks; a block is `code` followed by `code-1` non-zero bytes; code 0xFF means
    /// "254 data bytes, no implied zero".
    pub fn ref_cobs(msg: &[u8], out: &mut [u8]) -> usize {
        let mut o = 1; // next write position
        let mut code_at = 0;
        let mut code: u8 = 1;
        let mut i = 0;
        while i < msg.len() {
            let b = msg[i];
            if b == 0 {
                out[code_at] = code;
                code_at = o;
                o += 1;
                code = 1;
            } else {
                out[o] = b;
                o += 1;
                code += 1;
                if code == 0xFF {
                    out[code_at] = code;
                    code_at = o;
                    o += 1;
                    code = 1;
                }
            }
            i += 1;
        }
        out[code_at] = code;
        o
    }

    /// Standard COBS decoder of the first frame of `src` (up to, not including, the first 0x00,
    /// or the whole slice if there is none). Err(()) iff a code byte points past the frame end.
    /// Returns Ok((decoded_len, frame_len_without_sentinel)).
    pub fn ref_uncobs(src: &[u8], out: &mut [u8]) -> Result<(usize, usize), ()> {
        let mut end = 0;
        while end < src.len() && src[end] != 0 {
            end += 1;
        }
        let mut i = 0;
        let mut o = 0;
        while i < end {
            let code = src[i] as usize;
            if i + code > end {
                return Err(());
            }
            let mut k = 1;
            while k < code {
                out[o] = src[i + k];
                o += 1;
                k += 1;
            }
            i += code;
            if code != 0xFF && i < end {
                out[o] = 0;
                o += 1;
            }
        }
        Ok((o, end))
    }

    /// Bitwise (table-free) CRC from catalogue parameters (Rocksoft model), register width `w` <= 128.
    pub fn ref_crc(w: u32, poly: u128, init: u128, refin: bool, refout: bool, xorout: u128, data: &[u8]) -> u128 {
        let mask: u128 = if w == 128 { u128::MAX } else { (1u128 << w) - 1 };
        let top: u128 = 1u128 << (w - 1);
        let mut reg = init & mask;
        let mut i = 0;
        while i < data.len() {
            let byte = if refin { data[i].reverse_bits() } else { data[i] };
            let mut bit = 0;
            while bit < 8 {
                let inb = (byte >> (7 - bit)) & 1;
                let msb = if reg & top != 0 { 1u8 } else { 0u8 };
                reg = (reg << 1) & mask;
                if (msb ^ inb) == 1 {
                    reg ^= poly & mask;
                }
                bit += 1;
            }
            i += 1;
        }
        if refout {
            reg = reg.reverse_bits() >> (128 - w);
        }
        (reg ^ xorout) & mask
    }

    pub fn err_code(e: &Error) -> u8 {
        match e {
            Error::WontImplement => 1,
            Error::NotYetImplemented => 2,
            Error::SerializeBufferFull => 3,
            Error::SerializeSeqLengthUnknown => 4,
            Error::DeserializeUnexpectedEnd => 5,
            Error::DeserializeBadVarint => 6,
            Error::DeserializeBadBool => 7,
            Error::DeserializeBadChar => 8,
            Error::DeserializeBadUtf8 => 9,
            Error::DeserializeBadOption => 10,
            Error::DeserializeBadEnum => 11,
            Error::DeserializeBadEncoding => 12,
            Error::DeserializeBadCrc => 13,
            Error::SerdeSerCustom => 14,
            Error::SerdeDeCustom => 15,
            Error::CollectStrError => 16,
        }
    }

    /// symbolic byte array helper
    pub fn any_bytes<const N: usize>() -> [u8; N] {
        kani::any()
    }
}
