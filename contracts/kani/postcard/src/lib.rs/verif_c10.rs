// C10: CRC framing. The reference checksum is a BITWISE implementation from the catalogue parameters,
// independent of the crc crate's tables.
#[cfg(kani)]
mod verif_c10 {
    use crate::verif_ref::*;
    use crate::*;
    use crc::{Crc, CRC_16_USB, CRC_32_ISCSI, CRC_64_ECMA_182, CRC_82_DARC, CRC_8_SMBUS};
    use crate::de_flavors::crc::{take_from_bytes_u128, take_from_bytes_u16, take_from_bytes_u32, take_from_bytes_u64, take_from_bytes_u8};
    use crate::ser_flavors::crc::{to_slice_u128, to_slice_u16, to_slice_u32, to_slice_u64, to_slice_u8};

    static C8: Crc<u8> = Crc::<u8>::new(&CRC_8_SMBUS);
    static C16: Crc<u16> = Crc::<u16>::new(&CRC_16_USB);
    static C32: Crc<u32> = Crc::<u32>::new(&CRC_32_ISCSI);
    static C64: Crc<u64> = Crc::<u64>::new(&CRC_64_ECMA_182);
    static C128: Crc<u128> = Crc::<u128>::new(&CRC_82_DARC);

    type Probe = (u16, bool);

    macro_rules! crc_h {
        ($ser:ident, $de:ident, $corrupt:ident, $C:ident, $int:ty, $nb:expr, $to:ident, $take:ident, $w:expr, $alg:expr) => {
            /// output == plain(v) ++ little-endian checksum of exactly those bytes; decodes back; tail returned
            #[kani::proof]
            #[kani::unwind(20)]
            fn $ser() {
                let v: Probe = kani::any();
                let mut plain = [0u8; 4];
                let pl = to_slice(&v, &mut plain).unwrap().len();
                let a = $alg;
                let want = ref_crc($w, a.poly as u128, a.init as u128, a.refin, a.refout, a.xorout as u128, &plain[..pl]);
                let mut buf = [0u8; 4 + $nb + 1];
                let used = $to(&v, &mut buf[..4 + $nb], $C.digest()).unwrap().len();
                assert!(used == pl + $nb, "SPEC: CRC-framed length is plain length + width/8");
                let i: usize = kani::any();
                kani::assume(i < used);
                if i < pl {
                    assert!(buf[i] == plain[i], "SPEC: CRC-framed output must start with the plain encoding");
                } else {
                    assert!(buf[i] == (want >> (8 * (i - pl))) as u8, "SPEC: trailer must be the little-endian checksum of the plain bytes");
                }
                let tail: u8 = kani::any();
                buf[used] = tail;
                let (back, rest) = $take::<Probe>(&buf[..used + 1], $C.digest()).unwrap();
                assert!(back == v, "SPEC: CRC-checked decoding must return the value");
                assert!(rest.len() == 1 && rest[0] == tail, "SPEC: ... and the bytes after the checksum");
            }

            /// whenever CRC-checked decoding succeeds on ANY input, the consumed value bytes are followed by their correct checksum
            #[kani::proof]
            #[kani::unwind(20)]
            fn $de() {
                let b: [u8; 4 + $nb] = kani::any();
                let l: usize = kani::any();
                kani::assume(l <= 4 + $nb);
                let inp = &b[..l];
                match $take::<Probe>(inp, $C.digest()) {
                    Ok((v, rest)) => {
                        let (v2, plain_rest) = take_from_bytes::<Probe>(inp).unwrap();
                        assert!(v2 == v);
                        let pl = l - plain_rest.len();
                        assert!(plain_rest.len() >= $nb && rest.len() == plain_rest.len() - $nb, "SPEC: remainder begins after the checksum");
                        let a = $alg;
                        let want = ref_crc($w, a.poly as u128, a.init as u128, a.refin, a.refout, a.xorout as u128, &inp[..pl]);
                        let i: usize = kani::any();
                        kani::assume(i < $nb);
                        assert!(inp[pl + i] == (want >> (8 * i)) as u8, "SPEC: accepted an input whose checksum is wrong");
                    }
                    Err(e) => {
                        // must be justified: plain decoding fails the same way, too few bytes for the checksum, or checksum mismatch
                        match take_from_bytes::<Probe>(inp) {
                            Err(f) => assert!(err_code(&e) == err_code(&f), "SPEC: error differs from plain decoding"),
                            Ok((_v, plain_rest)) => {
                                if plain_rest.len() < $nb {
                                    assert!(matches!(e, Error::DeserializeUnexpectedEnd));
                                } else {
                                    let pl = l - plain_rest.len();
                                    let a = $alg;
                                    let want = ref_crc($w, a.poly as u128, a.init as u128, a.refin, a.refout, a.xorout as u128, &inp[..pl]);
                                    let mut eq = true;
                                    let mut i = 0;
                                    while i < $nb {
                                        if inp[pl + i] != (want >> (8 * i)) as u8 { eq = false; }
                                        i += 1;
                                    }
                                    assert!(!eq, "SPEC: rejected an input whose checksum is correct");
                                    assert!(matches!(e, Error::DeserializeBadCrc), "SPEC: checksum mismatch must be DeserializeBadCrc");
                                }
                            }
                        }
                    }
                }
            }
        };
    }
    crc_h!(ser_u8, de_u8, corrupt_u8, C8, u8, 1, to_slice_u8, take_from_bytes_u8, 8, CRC_8_SMBUS);
    crc_h!(ser_u16, de_u16, corrupt_u16, C16, u16, 2, to_slice_u16, take_from_bytes_u16, 16, CRC_16_USB);
    crc_h!(ser_u32, de_u32, corrupt_u32, C32, u32, 4, to_slice_u32, take_from_bytes_u32, 32, CRC_32_ISCSI);
    crc_h!(ser_u64, de_u64, corrupt_u64, C64, u64, 8, to_slice_u64, take_from_bytes_u64, 64, CRC_64_ECMA_182);
    crc_h!(ser_u128, de_u128, corrupt_u128, C128, u128, 16, to_slice_u128, take_from_bytes_u128, 82, CRC_82_DARC);

    macro_rules! crc_small {
        ($name:ident, $C:ident, $nb:expr, $to:ident, $take:ident, $w:expr, $alg:expr) => {
            /// every width, one-byte probe (cheap): frame == [plain byte] ++ LE(reference CRC); round trip; ANY corruption confined to
            /// the checksum bytes is rejected; truncation of the checksum is rejected
            #[kani::proof]
            #[kani::unwind(20)]
            fn $name() {
                let v: u8 = kani::any();
                let a = $alg;
                let want = ref_crc($w, a.poly as u128, a.init as u128, a.refin, a.refout, a.xorout as u128, &[v]);
                let mut buf = [0u8; 1 + $nb + 1];
                let used = $to(&v, &mut buf[..1 + $nb], $C.digest()).unwrap().len();
                assert!(used == 1 + $nb && buf[0] == v, "SPEC: CRC frame is the plain encoding followed by width/8 checksum bytes");
                let i: usize = kani::any();
                kani::assume(i < $nb);
                assert!(buf[1 + i] == (want >> (8 * i)) as u8, "SPEC: checksum byte i must be bits 8i.. of the reference CRC (little-endian)");
                let (back, rest) = $take::<u8>(&buf[..used], $C.digest()).unwrap();
                assert!(back == v && rest.is_empty());
                assert!($take::<u8>(&buf[..used - 1], $C.digest()).is_err(), "SPEC: a truncated checksum must be rejected");
                let m: u8 = kani::any();
                kani::assume(m != 0);
                buf[1 + i] ^= m;
                match $take::<u8>(&buf[..used], $C.digest()) {
                    Err(Error::DeserializeBadCrc) => {}
                    _ => panic!("SPEC: a corrupted checksum byte must be rejected with DeserializeBadCrc"),
                }
            }
        };
    }
    crc_small!(small_u8, C8, 1, to_slice_u8, take_from_bytes_u8, 8, CRC_8_SMBUS);
    crc_small!(small_u16, C16, 2, to_slice_u16, take_from_bytes_u16, 16, CRC_16_USB);
    crc_small!(small_u32, C32, 4, to_slice_u32, take_from_bytes_u32, 32, CRC_32_ISCSI);
    crc_small!(small_u64, C64, 8, to_slice_u64, take_from_bytes_u64, 64, CRC_64_ECMA_182);
    crc_small!(small_u128, C128, 16, to_slice_u128, take_from_bytes_u128, 82, CRC_82_DARC);

    /// a multi-byte try_take_n (borrowed bytes) must feed the digest too: &[u8] payload round trip + wrong-checksum rejection
    #[kani::proof]
    #[kani::unwind(20)]
    fn take_n_feeds_digest() {
        let data: [u8; 2] = kani::any();
        let v: &[u8] = &data[..];
        let mut buf = [0u8; 8];
        let used = to_slice_crc32(v, &mut buf, C32.digest()).unwrap().len();
        assert!(used == 3 + 4);
        let back: &[u8] = from_bytes_crc32(&buf[..used], C32.digest()).unwrap();
        assert!(back.len() == 2 && back[0] == data[0] && back[1] == data[1]);
        // flip any payload bit(s) in the borrowed bytes: must be rejected (CRC-32 detects every burst <= 32 bits)
        let m: u8 = kani::any();
        kani::assume(m != 0);
        buf[1] ^= m;
        assert!(from_bytes_crc32::<&[u8]>(&buf[..used], C32.digest()).is_err(), "SPEC: corrupted borrowed bytes accepted");
    }
}
