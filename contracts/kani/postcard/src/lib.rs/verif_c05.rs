// C05 through the public entry points: for every value of a probe type and EVERY capacity (symbolic), serialising into fixed
// storage succeeds exactly when the capacity is at least the length of the complete output, returns exactly the unbounded
// output at the front of the buffer, leaves the rest untouched, and otherwise returns SerializeBufferFull without writing
// outside the buffer. Plain, COBS-framed and CRC-framed; also for values whose plain encoding is EMPTY.
#[cfg(kani)]
mod verif_c05 {
    use crate::verif_probes::*;
    use crate::*;
    use crc::{Crc, CRC_32_ISCSI};
    use serde::Serialize;

    static C32: Crc<u32> = Crc::<u32>::new(&CRC_32_ISCSI);
    const W: usize = 12;

    #[derive(Clone, Copy)]
    enum Framing {
        Plain,
        Cobs,
        Crc32,
    }
    fn run<T: Serialize>(v: &T, f: Framing, buf: &mut [u8]) -> Result<usize> {
        match f {
            Framing::Plain => to_slice(v, buf).map(|o| o.len()),
            Framing::Cobs => to_slice_cobs(v, buf).map(|o| o.len()),
            Framing::Crc32 => to_slice_crc32(v, buf, C32.digest()).map(|o| o.len()),
        }
    }
    fn threshold<T: Serialize>(v: &T, f: Framing) {
        // the complete output, from an ample buffer
        let mut full = [0u8; W];
        let len = run(v, f, &mut full).unwrap();
        // the same call with an arbitrary capacity inside an array with symbolic previous contents
        let orig: [u8; W] = kani::any();
        let mut buf = orig;
        let cap: usize = kani::any();
        kani::assume(cap <= W);
        let r = run(v, f, &mut buf[..cap]);
        kani::cover!(cap == len);
        kani::cover!(cap + 1 == len);
        let k: usize = kani::any();
        kani::assume(k < W);
        match r {
            Ok(n) => {
                assert!(cap >= len, "SPEC: serialising succeeded although the capacity is smaller than the output");
                assert!(n == len, "SPEC: bounded serialisation must return exactly the unbounded output (length)");
                if k < len {
                    assert!(buf[k] == full[k], "SPEC: bounded serialisation must return exactly the unbounded output (bytes)");
                } else {
                    assert!(buf[k] == orig[k], "SPEC: the rest of the buffer must be left untouched");
                }
            }
            Err(e) => {
                assert!(cap < len, "SPEC: serialising failed although the capacity is at least the length of the complete output");
                assert!(matches!(e, Error::SerializeBufferFull), "SPEC: too-small capacity must be reported as SerializeBufferFull");
                if k >= cap {
                    assert!(buf[k] == orig[k], "a byte outside the buffer was written");
                }
            }
        }
    }

    #[kani::proof]
    #[kani::unwind(8)]
    fn threshold_plain() {
        let v: PTup = kani::any();
        threshold(&v, Framing::Plain);
    }
    #[kani::proof]
    #[kani::unwind(8)]
    fn threshold_cobs() {
        let v: PTup = kani::any();
        threshold(&v, Framing::Cobs);
    }
    #[kani::proof]
    #[kani::unwind(8)]
    fn threshold_crc32() {
        let v: (u8, bool) = kani::any();
        threshold(&v, Framing::Crc32);
    }
    /// values whose plain encoding is empty: the output is only the framing (nothing / code byte + sentinel / checksum)
    #[kani::proof]
    #[kani::unwind(8)]
    fn threshold_empty_payload() {
        threshold(&(), Framing::Plain);
        threshold(&PUnit, Framing::Cobs);
        threshold(&(), Framing::Crc32);
    }

    /// fixed-capacity vector entry points: Ok iff B >= output length; same bytes as the slice entry point
    fn vec_threshold<const B: usize>(v: &PTup) {
        let mut full = [0u8; W];
        let len = to_slice(v, &mut full).unwrap().len();
        match to_vec::<PTup, B>(v) {
            Ok(o) => {
                assert!(B >= len && o.len() == len, "SPEC: to_vec succeeded with too small a capacity / wrong length");
                let k: usize = kani::any();
                kani::assume(k < len);
                assert!(o[k] == full[k], "SPEC: to_vec bytes differ from the unbounded output");
            }
            Err(e) => assert!(B < len && matches!(e, Error::SerializeBufferFull), "SPEC: to_vec failed although the capacity suffices"),
        }
    }
    fn vec_cobs_threshold<const B: usize>(v: &PTup) {
        let mut fullc = [0u8; W];
        let lenc = to_slice_cobs(v, &mut fullc).unwrap().len();
        match to_vec_cobs::<PTup, B>(v) {
            Ok(o) => assert!(B >= lenc && o.len() == lenc, "SPEC: to_vec_cobs succeeded with too small a capacity / wrong length"),
            Err(e) => assert!(B < lenc && matches!(e, Error::SerializeBufferFull), "SPEC: to_vec_cobs failed although the capacity suffices"),
        }
    }
    #[kani::proof]
    #[kani::unwind(8)]
    fn threshold_vec() {
        let v: PTup = kani::any(); // plain length 2..=4
        vec_threshold::<2>(&v);
        vec_threshold::<3>(&v);
        vec_threshold::<4>(&v);
    }
    #[kani::proof]
    #[kani::unwind(8)]
    fn threshold_vec_cobs() {
        let v: PTup = kani::any(); // frame length 4..=6
        vec_cobs_threshold::<4>(&v);
        vec_cobs_threshold::<5>(&v);
        vec_cobs_threshold::<6>(&v);
    }

    /// the size-measuring call reports exactly the output length
    #[kani::proof]
    #[kani::unwind(8)]
    fn size_exact() {
        let v: PE = kani::any();
        let mut full = [0u8; W];
        let len = to_slice(&v, &mut full).unwrap().len();
        assert!(experimental::serialized_size(&v).unwrap() == len, "SPEC: serialized_size must equal the output length");
        assert!(experimental::serialized_size(&()).unwrap() == 0);
    }
}
