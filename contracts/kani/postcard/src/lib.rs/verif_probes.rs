// Probe types: concrete types that drive serde's REAL impls and REAL derive output through postcard.
#[cfg(kani)]
#[allow(dead_code)]
pub(crate) mod verif_probes {
    use serde::{Deserialize, Serialize};

    #[derive(Serialize, Deserialize, PartialEq, Eq, Debug, Clone, Copy, kani::Arbitrary)]
    pub enum PE {
        Unit,
        New(u16),
        Tup(u8, i16),
        Str { a: bool, b: u32 },
    }

    #[derive(Serialize, Deserialize, PartialEq, Eq, Debug, Clone, Copy, kani::Arbitrary)]
    pub struct PS {
        pub a: u16,
        pub e: PE,
        pub o: Option<i32>,
        pub t: (u8, bool),
    }
    pub const PS_MAX: usize = 3 + 7 + 6 + 2;

    #[derive(Serialize, Deserialize, PartialEq, Eq, Debug, Clone, Copy, kani::Arbitrary)]
    pub struct PUnit;
    #[derive(Serialize, Deserialize, PartialEq, Eq, Debug, Clone, Copy, kani::Arbitrary)]
    pub struct PNew(pub i64);
    #[derive(Serialize, Deserialize, PartialEq, Eq, Debug, Clone, Copy, kani::Arbitrary)]
    pub struct PTup(pub u8, pub u16);

    /// borrowed probe: a struct holding a &str and a &[u8]
    #[derive(Serialize, Deserialize, PartialEq, Eq, Debug, Clone, Copy)]
    pub struct PB<'a> {
        pub k: u8,
        pub s: &'a str,
        #[serde(with = "bytes_field")]
        pub b: &'a [u8],
    }
    mod bytes_field {
        // route a &[u8] through serialize_bytes / deserialize_bytes (what serde_bytes does)
        use serde::{Deserializer, Serializer};
        pub fn serialize<S: Serializer>(v: &&[u8], s: S) -> Result<S::Ok, S::Error> {
            s.serialize_bytes(v)
        }
        pub fn deserialize<'de, D: Deserializer<'de>>(d: D) -> Result<&'de [u8], D::Error> {
            struct V;
            impl<'de> serde::de::Visitor<'de> for V {
                type Value = &'de [u8];
                fn expecting(&self, f: &mut core::fmt::Formatter) -> core::fmt::Result {
                    f.write_str("bytes")
                }
                fn visit_borrowed_bytes<E>(self, v: &'de [u8]) -> Result<&'de [u8], E> {
                    Ok(v)
                }
            }
            d.deserialize_bytes(V)
        }
    }
}
