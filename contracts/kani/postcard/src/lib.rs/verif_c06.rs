// C06 / C07 through the public API.
#[cfg(kani)]
mod verif_c06 {
    use crate::verif_probes::*;
    use crate::verif_ref::*;
    use crate::*;

    /// to_slice_cobs(v) == standard COBS of the plain encoding ++ [0]; exactly one zero (the last); decodes back
    #[kani::proof]
    #[kani::unwind(11)]
    fn api_small() {
        let v: PE = kani::any();
        let mut plain = [0u8; 8];
        let pl = to_slice(&v, &mut plain).unwrap().len();
        let mut want = [0u8; 12];
        let wl = ref_cobs(&plain[..pl], &mut want);
        want[wl] = 0;
        let mut buf = [0u8; 12];
        let used = to_slice_cobs(&v, &mut buf).unwrap().len();
        assert!(used == wl + 1, "SPEC: framed length is |cobs(plain)| + 1");
        let i: usize = kani::any();
        kani::assume(i < used);
        assert!(buf[i] == want[i], "SPEC: framed bytes differ from the standard COBS transform + sentinel");
        assert!((buf[i] == 0) == (i == used - 1), "SPEC: the frame contains exactly one zero byte - its last");
        let back: PE = from_bytes_cobs(&mut buf[..used]).unwrap();
        assert!(back == v, "SPEC: COBS frame does not decode back to the value");
    }

    /// multi-byte blocks handed to the flavour in ONE try_extend call (floats, strings) with zeros in any position:
    /// the COBS flavour must transform them exactly like the same bytes pushed one by one
    #[kani::proof]
    #[kani::unwind(12)]
    fn api_extend_block() {
        let bits: u32 = kani::any();
        let k: u8 = kani::any();
        let v = (k, f32::from_bits(bits), k);
        let mut plain = [0u8; 6];
        let pl = to_slice(&v, &mut plain).unwrap().len();
        let mut want = [0u8; 8];
        let wl = ref_cobs(&plain[..pl], &mut want);
        want[wl] = 0;
        let mut buf = [0u8; 8];
        let used = to_slice_cobs(&v, &mut buf).unwrap().len();
        kani::cover!(plain[1] != 0 && plain[2] == 0 && plain[3] != 0);
        assert!(used == wl + 1, "SPEC: framed length is |cobs(plain)| + 1");
        let i: usize = kani::any();
        kani::assume(i < used);
        assert!(buf[i] == want[i], "SPEC: framed bytes differ from the standard COBS transform + sentinel");
        let hv: heapless::Vec<u8, 8> = to_vec_cobs(&v).unwrap();
        assert!(hv.len() == used && hv[i] == want[i], "SPEC: COBS over the fixed-capacity vector differs");
    }

    /// every COBS entry point (slice, fixed-capacity vector, growable vector) produces the same frame
    #[kani::proof]
    #[kani::unwind(8)]
    fn api_entry_points() {
        let v: (u8, bool) = kani::any();
        let mut buf = [0u8; 6];
        let used = to_slice_cobs(&v, &mut buf).unwrap().len();
        let hv: heapless::Vec<u8, 6> = to_vec_cobs(&v).unwrap();
        let av = to_allocvec_cobs(&v).unwrap();
        assert!(hv.len() == used && av.len() == used, "SPEC: COBS entry points disagree on the frame length");
        let i: usize = kani::any();
        kani::assume(i < used);
        assert!(hv[i] == buf[i] && av[i] == buf[i], "SPEC: COBS entry points disagree on the frame bytes");
        core::mem::forget(av);
    }
    /// a value whose plain encoding is EMPTY: the frame is [0x01, 0x00] (n + floor(n/254) + 2 bytes with n = 0) through every entry point
    #[kani::proof]
    #[kani::unwind(8)]
    fn api_empty_message() {
        let mut e = [0xAAu8; 4];
        let eu = to_slice_cobs(&(), &mut e).unwrap().len();
        assert!(eu == 2 && e[0] == 1 && e[1] == 0, "SPEC: the frame of an empty message is [0x01, 0x00]");
        let eh: heapless::Vec<u8, 4> = to_vec_cobs(&PUnit).unwrap();
        assert!(eh.len() == 2 && eh[0] == 1 && eh[1] == 0, "SPEC: to_vec_cobs of an empty message");
        let ea = to_allocvec_cobs(&()).unwrap();
        assert!(ea.len() == 2 && ea[0] == 1 && ea[1] == 0, "SPEC: to_allocvec_cobs of an empty message");
        core::mem::forget(ea);
    }
    #[kani::proof]
    #[kani::unwind(8)]
    fn api_empty_message_std() {
        let es = to_stdvec_cobs(&PUnit).unwrap();
        assert!(es.len() == 2 && es[0] == 1 && es[1] == 0, "SPEC: to_stdvec_cobs of an empty message");
        core::mem::forget(es);
    }

    /// several frames back to back: each call returns the value and exactly the bytes after its frame,
    /// whether or not the last frame's sentinel is present
    #[kani::proof]
    #[kani::unwind(9)]
    fn frames() {
        let a: PTup = kani::any();
        let b: PTup = kani::any();
        let mut buf = [0u8; 16];
        let l1 = to_slice_cobs(&a, &mut buf).unwrap().len();
        let l2 = to_slice_cobs(&b, &mut buf[l1..]).unwrap().len();
        let drop_last_sentinel: bool = kani::any();
        let total = l1 + l2 - if drop_last_sentinel { 1 } else { 0 };
        let (x, rest) = take_from_bytes_cobs::<PTup>(&mut buf[..total]).unwrap();
        assert!(x == a, "SPEC: first frame's value");
        assert!(rest.len() == total - l1, "SPEC: remainder begins right after the first frame's sentinel");
        let (y, rest2) = take_from_bytes_cobs::<PTup>(rest).unwrap();
        assert!(y == b, "SPEC: second frame's value");
        assert!(rest2.is_empty());
    }

    /// C07: arbitrary bytes. No panic, no out-of-bounds (checked by CBMC); Err(BadEncoding) iff a code byte points
    /// past the end of the first frame; otherwise exactly plain decoding of the standard COBS payload.
    #[kani::proof]
    #[kani::unwind(12)]
    fn decode_arbitrary() {
        let orig: [u8; 7] = kani::any();
        let l: usize = kani::any();
        kani::assume(l <= 7);
        let mut payload = [0u8; 8];
        let want = ref_uncobs(&orig[..l], &mut payload);
        let mut buf = orig;
        let got = from_bytes_cobs::<(u8, u16)>(&mut buf[..l]);
        match want {
            Err(()) => match got {
                Err(Error::DeserializeBadEncoding) => {}
                _ => panic!("SPEC: ill-formed COBS must be rejected with DeserializeBadEncoding"),
            },
            Ok((pl, _fl)) => {
                kani::cover!(pl >= 2);
                let plain = from_bytes::<(u8, u16)>(&payload[..pl]);
                match (got, plain) {
                    (Ok(g), Ok(p)) => assert!(g == p, "SPEC: value differs from plain decoding of the COBS payload"),
                    (Err(e), Err(f)) => assert!(err_code(&e) == err_code(&f), "SPEC: error differs from plain decoding of the COBS payload"),
                    _ => panic!("SPEC: accept/reject differs from plain decoding of the COBS payload"),
                }
            }
        }
    }

    #[kani::proof]
    #[kani::unwind(12)]
    fn take_arbitrary() {
        let orig: [u8; 7] = kani::any();
        let l: usize = kani::any();
        kani::assume(l <= 7);
        let mut payload = [0u8; 8];
        let want = ref_uncobs(&orig[..l], &mut payload);
        let mut buf = orig;
        let base = buf.as_ptr() as usize;
        let got = take_from_bytes_cobs::<(u8, u16)>(&mut buf[..l]);
        match want {
            Err(()) => match got {
                Err(Error::DeserializeBadEncoding) => {}
                _ => panic!("SPEC: ill-formed COBS must be rejected with DeserializeBadEncoding"),
            },
            Ok((pl, fl)) => {
                let plain = from_bytes::<(u8, u16)>(&payload[..pl]);
                match (got, plain) {
                    (Ok((g, rest)), Ok(p)) => {
                        assert!(g == p, "SPEC: value differs from plain decoding of the COBS payload");
                        let after = if fl < l { fl + 1 } else { l };
                        assert!(rest.as_ptr() as usize == base + after, "SPEC: remainder must begin immediately after the frame's sentinel");
                        assert!(rest.len() == l - after);
                        let i: usize = kani::any();
                        kani::assume(i < rest.len());
                        assert!(rest[i] == orig[after + i], "SPEC: bytes after the frame must be untouched");
                    }
                    (Err(e), Err(f)) => assert!(err_code(&e) == err_code(&f)),
                    _ => panic!("SPEC: accept/reject differs from plain decoding of the COBS payload"),
                }
            }
        }
    }

    // ---- modular check of the two thin wrappers for LONG frames: the callee cobs::decode_in_place[_report] is replaced by its
    // contract (derived from cobs 0.2.3 dec.rs `decode_raw!`: on Ok, src_used == position of the first zero byte or the buffer
    // length, dst_used <= src_used, only buff[..dst_used] is written; or Err(())) and the wrappers' own arithmetic - which bytes
    // are plain-decoded, where the remainder starts, the error kind - is checked for buffers up to 300 bytes.
    static mut STUB_ERR: bool = false;
    static mut STUB_DST: usize = 0;
    fn first_zero(b: &[u8]) -> usize {
        let mut i = 0;
        while i < b.len() {
            if b[i] == 0 { return i; }
            i += 1;
        }
        b.len()
    }
    fn report_model(buff: &mut [u8]) -> core::result::Result<cobs::DecodeReport, ()> {
        if unsafe { STUB_ERR } { return Err(()); }
        Ok(cobs::DecodeReport { src_used: first_zero(buff), dst_used: unsafe { STUB_DST } })
    }
    fn in_place_model(buff: &mut [u8]) -> core::result::Result<usize, ()> {
        if unsafe { STUB_ERR } { return Err(()); }
        Ok(unsafe { STUB_DST })
    }
    const LONG: usize = 300;

    #[kani::proof]
    #[kani::stub(cobs::decode_in_place_report, report_model)]
    #[kani::stub(cobs::decode_in_place, in_place_model)]
    #[kani::unwind(302)]
    fn take_wrapper_long() {
        let orig: [u8; LONG] = kani::any();
        let l: usize = kani::any();
        kani::assume(l <= LONG);
        let fz = first_zero(&orig[..l]);
        let err: bool = kani::any();
        let dst: usize = kani::any();
        kani::assume(dst <= fz);
        unsafe { STUB_ERR = err; STUB_DST = dst; }
        let mut buf = orig;
        let base = buf.as_ptr() as usize;
        let got = take_from_bytes_cobs::<u8>(&mut buf[..l]);
        if err {
            assert!(matches!(got, Err(Error::DeserializeBadEncoding)), "SPEC: ill-formed COBS must be rejected with DeserializeBadEncoding");
        } else {
            let plain = from_bytes::<u8>(&orig[..dst]);
            match (got, plain) {
                (Ok((g, rest)), Ok(p)) => {
                    assert!(g == p, "SPEC: value differs from plain decoding of the decoded payload");
                    let after = if fz < l { fz + 1 } else { l };
                    assert!(rest.as_ptr() as usize == base + after, "SPEC: remainder must begin immediately after the frame's sentinel");
                    assert!(rest.len() == l - after, "SPEC: remainder must extend to the end of the buffer");
                }
                (Err(e), Err(f)) => assert!(err_code(&e) == err_code(&f)),
                _ => panic!("SPEC: accept/reject differs from plain decoding of the decoded payload"),
            }
        }
    }

    // both entry points of the cobs decoder are modelled consistently in both harnesses, so a wrapper re-expressed through the
    // other one (a harmless refactoring) is judged the same way
    #[kani::proof]
    #[kani::stub(cobs::decode_in_place, in_place_model)]
    #[kani::stub(cobs::decode_in_place_report, report_model)]
    #[kani::unwind(302)]
    fn decode_wrapper_long() {
        let orig: [u8; LONG] = kani::any();
        let l: usize = kani::any();
        kani::assume(l <= LONG);
        let err: bool = kani::any();
        let dst: usize = kani::any();
        kani::assume(dst <= first_zero(&orig[..l]));
        unsafe { STUB_ERR = err; STUB_DST = dst; }
        let mut buf = orig;
        let got = from_bytes_cobs::<u8>(&mut buf[..l]);
        if err {
            assert!(matches!(got, Err(Error::DeserializeBadEncoding)), "SPEC: ill-formed COBS must be rejected with DeserializeBadEncoding");
        } else {
            match (got, from_bytes::<u8>(&orig[..dst])) {
                (Ok(g), Ok(p)) => assert!(g == p, "SPEC: value differs from plain decoding of the decoded payload"),
                (Err(e), Err(f)) => assert!(err_code(&e) == err_code(&f)),
                _ => panic!("SPEC: accept/reject differs from plain decoding of the decoded payload"),
            }
        }
    }
}
