// C11 for the embedded-io 0.6 adapters (EIOReader / eio::WriteFlavor): same contracts as the std adapters, over model
// reader / writer types implementing embedded_io::{Read, Write} with nondeterministic short reads / partial writes.
#[cfg(kani)]
mod verif_c11e {
    use crate::de_flavors::io::eio::EIOReader;
    use crate::de_flavors::Flavor as DeFlavor;
    use crate::ser_flavors::{eio::WriteFlavor, Flavor as SerFlavor};
    use crate::*;
    use embedded_io_06 as eio;

    #[derive(Debug)]
    struct E;
    impl eio::Error for E {
        fn kind(&self) -> eio::ErrorKind {
            eio::ErrorKind::Other
        }
    }
    struct ShortReader<'a> {
        data: &'a [u8],
        pos: usize,
        calls: usize,
        fail_at: usize,
    }
    impl<'a> eio::ErrorType for ShortReader<'a> {
        type Error = E;
    }
    impl<'a> eio::Read for ShortReader<'a> {
        fn read(&mut self, buf: &mut [u8]) -> core::result::Result<usize, E> {
            let call = self.calls;
            self.calls += 1;
            if call == self.fail_at {
                return Err(E);
            }
            let avail = self.data.len() - self.pos;
            if avail == 0 || buf.is_empty() {
                return Ok(0);
            }
            let n: usize = kani::any();
            kani::assume(n >= 1 && n <= buf.len() && n <= avail);
            let mut i = 0;
            while i < n {
                buf[i] = self.data[self.pos + i];
                i += 1;
            }
            self.pos += n;
            Ok(n)
        }
    }

    #[kani::proof]
    #[kani::unwind(8)]
    fn eioreader_contract() {
        let stream: [u8; 5] = kani::any();
        let slen: usize = kani::any();
        kani::assume(slen <= 5);
        let mut scratch = [0u8; 3];
        let sclen: usize = kani::any();
        kani::assume(sclen <= 3);
        let sbase = scratch.as_ptr() as usize;
        let fail_at: usize = kani::any();
        let rd = ShortReader { data: &stream[..slen], pos: 0, calls: 0, fail_at };
        let mut f = EIOReader::new(rd, &mut scratch[..sclen]);
        let r = f.pop();
        let mut consumed = 0;
        match r {
            Ok(b) => {
                assert!(slen >= 1 && b == stream[0], "SPEC: pop must deliver the next stream byte");
                consumed = 1;
            }
            Err(e) => {
                assert!(slen == 0 || fail_at < 2, "SPEC: pop failed although data was available and the reader did not fail");
                assert!(matches!(e, Error::DeserializeUnexpectedEnd));
                return;
            }
        }
        let ct: usize = kani::any();
        kani::assume(ct <= 3);
        match f.try_take_n(ct) {
            Ok(sl) => {
                assert!(ct <= sclen && ct <= slen - consumed, "SPEC: try_take_n succeeded without enough scratch or data");
                assert!(sl.len() == ct && sl.as_ptr() as usize == sbase, "SPEC: borrowed data must occupy the next free scratch slot");
                let i: usize = kani::any();
                kani::assume(i < ct);
                assert!(sl[i] == stream[consumed + i], "SPEC: borrowed data must equal the stream bytes");
                let (rd, rest) = f.finalize().unwrap();
                assert!(rd.pos == consumed + ct, "SPEC: the reader must have been advanced by exactly the bytes consumed");
                assert!(rest.len() == sclen - ct && rest.as_ptr() as usize == sbase + ct, "SPEC: the unused scratch must be returned");
            }
            Err(e) => {
                assert!(ct > sclen || ct > slen - consumed || fail_at < 8, "SPEC: try_take_n failed although scratch and data suffice and the reader did not fail");
                assert!(matches!(e, Error::DeserializeUnexpectedEnd));
            }
        }
    }

    struct PartialWriter {
        buf: [u8; 8],
        len: usize,
        calls: usize,
        fail_at: usize,
        full_at: usize,
        flushed: u8,
    }
    impl eio::ErrorType for PartialWriter {
        type Error = E;
    }
    impl eio::Write for PartialWriter {
        fn write(&mut self, b: &[u8]) -> core::result::Result<usize, E> {
            let call = self.calls;
            self.calls += 1;
            // embedded-io's Write contract: `write` on a non-empty buffer must block, make progress or fail - never return Ok(0)
            // (its provided write_all panics on Ok(0) by documented design); a full model writer therefore FAILS.
            if call >= self.fail_at || call >= self.full_at {
                return Err(E);
            }
            if b.is_empty() {
                return Ok(0);
            }
            let n: usize = kani::any();
            kani::assume(n >= 1 && n <= b.len() && n <= 8 - self.len);
            let mut i = 0;
            while i < n {
                self.buf[self.len + i] = b[i];
                i += 1;
            }
            self.len += n;
            Ok(n)
        }
        fn flush(&mut self) -> core::result::Result<(), E> {
            self.flushed += 1;
            Ok(())
        }
    }

    #[kani::proof]
    #[kani::unwind(8)]
    fn eio_writeflavor_contract() {
        let fail_at: usize = kani::any();
        let full_at: usize = kani::any();
        let w = PartialWriter { buf: [0; 8], len: 0, calls: 0, fail_at, full_at, flushed: 0 };
        let mut f = WriteFlavor::new(w);
        let d: u8 = kani::any();
        let blk: [u8; 3] = kani::any();
        let bl: usize = kani::any();
        kani::assume(bl <= 3);
        let r1 = f.try_push(d);
        let r2 = if r1.is_ok() { f.try_extend(&blk[..bl]) } else { Err(Error::SerializeBufferFull) };
        kani::cover!(r1.is_err());
        kani::cover!(r1.is_ok() && r2.is_err());
        kani::cover!(r2.is_ok());
        if let Ok(w) = f.finalize() {
            if r1.is_ok() {
                assert!(w.len >= 1 && w.buf[0] == d, "SPEC: try_push returned Ok although the byte did not reach the writer");
            }
            if r1.is_ok() && r2.is_ok() {
                assert!(w.len == 1 + bl, "SPEC: try_extend returned Ok although the block did not reach the writer");
                let i: usize = kani::any();
                kani::assume(i < bl);
                assert!(w.buf[1 + i] == blk[i]);
                assert!(w.flushed == 1);
            }
        }
    }
}
