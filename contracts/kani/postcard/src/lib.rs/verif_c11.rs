// C11: reader / writer transports. Model reader / writer deliver or accept data in nondeterministic pieces.
#[cfg(kani)]
mod verif_c11 {
    use crate::de_flavors::io::io::IOReader;
    use crate::de_flavors::Flavor as DeFlavor;
    use crate::verif_probes::*;
    use crate::*;

    /// reader that returns a nondeterministic short count 1..=min(buf.len(), available) per call, and may fail at one call
    struct ShortReader<'a> {
        data: &'a [u8],
        pos: usize,
        calls: usize,
        fail_at: usize,
    }
    impl<'a> std::io::Read for ShortReader<'a> {
        fn read(&mut self, buf: &mut [u8]) -> std::io::Result<usize> {
            let call = self.calls;
            self.calls += 1;
            if call == self.fail_at {
                return Err(std::io::Error::from(std::io::ErrorKind::Other));
            }
            let avail = self.data.len() - self.pos;
            if avail == 0 || buf.is_empty() {
                return Ok(0);
            }
            let n: usize = kani::any();
            kani::assume(n >= 1 && n <= buf.len() && n <= avail);
            let mut i = 0;
            while i < n {
                buf[i] = self.data[self.pos + i];
                i += 1;
            }
            self.pos += n;
            Ok(n)
        }
    }

    /// IOReader satisfies the same Flavor contract as de::Slice over the unread stream, with borrowed data placed in
    /// consecutive disjoint scratch slots; too-small scratch or end of data is an error, never a panic.
    #[kani::proof]
    #[kani::unwind(8)]
    fn ioreader_contract() {
        let stream: [u8; 6] = kani::any();
        let slen: usize = kani::any();
        kani::assume(slen <= 6);
        let mut scratch = [0u8; 4];
        let sclen: usize = kani::any();
        kani::assume(sclen <= 4);
        let sbase = scratch.as_ptr() as usize;
        let rd = ShortReader { data: &stream[..slen], pos: 0, calls: 0, fail_at: usize::MAX };
        let mut f = IOReader::new(rd, &mut scratch[..sclen]);
        // pop
        let r = f.pop();
        let mut consumed = 0;
        if slen == 0 {
            assert!(matches!(r, Err(Error::DeserializeUnexpectedEnd)), "SPEC: pop at end of data must be UnexpectedEnd");
        } else {
            assert!(r == Ok(stream[0]), "SPEC: pop must deliver the next stream byte");
            consumed = 1;
        }
        // two takes
        let ct: usize = kani::any();
        kani::assume(ct <= 3);
        let mut used = 0;
        let mut alive = true;
        let r1 = f.try_take_n(ct);
        match r1 {
            Ok(sl) => {
                assert!(ct <= sclen - used && ct <= slen - consumed, "SPEC: try_take_n succeeded without enough scratch or data");
                assert!(sl.len() == ct && sl.as_ptr() as usize == sbase + used, "SPEC: borrowed data must occupy the next free scratch slot");
                let i: usize = kani::any();
                kani::assume(i < ct);
                assert!(sl[i] == stream[consumed + i], "SPEC: borrowed data must equal the stream bytes");
                used += ct;
                consumed += ct;
            }
            Err(e) => {
                assert!(ct > sclen - used || ct > slen - consumed, "SPEC: try_take_n failed although scratch and data suffice");
                assert!(matches!(e, Error::DeserializeUnexpectedEnd));
                alive = false;
            }
        }
        if alive {
            let ct2: usize = kani::any();
            kani::assume(ct2 <= 2);
            match f.try_take_n(ct2) {
                Ok(sl) => {
                    assert!(ct2 <= sclen - used && ct2 <= slen - consumed);
                    assert!(sl.len() == ct2 && sl.as_ptr() as usize == sbase + used, "SPEC: second slot must follow the first (disjoint)");
                    used += ct2;
                    consumed += ct2;
                }
                Err(_) => {
                    assert!(ct2 > sclen - used || ct2 > slen - consumed);
                    alive = false;
                }
            }
        }
        if alive {
            let (rd, rest) = f.finalize().unwrap();
            assert!(rd.pos == consumed, "SPEC: the reader must have been advanced by exactly the bytes consumed - not one more");
            assert!(rest.len() == sclen - used && rest.as_ptr() as usize == sbase + used, "SPEC: the unused scratch must be returned");
        }
    }

    /// a reader failing at any call: error, never a panic
    #[kani::proof]
    #[kani::unwind(8)]
    fn ioreader_fail() {
        let stream: [u8; 4] = kani::any();
        let mut scratch = [0u8; 4];
        let fail_at: usize = kani::any();
        kani::assume(fail_at < 3);
        let rd = ShortReader { data: &stream[..], pos: 0, calls: 0, fail_at };
        let mut f = IOReader::new(rd, &mut scratch[..]);
        let a = f.pop();
        let b = f.try_take_n(2);
        kani::cover!(a.is_err());
        kani::cover!(a.is_ok() && b.is_err());
        if let Err(e) = a {
            assert!(matches!(e, Error::DeserializeUnexpectedEnd));
        }
        if let Err(e) = b {
            assert!(matches!(e, Error::DeserializeUnexpectedEnd));
        }
    }

    /// from_io == take_from_bytes, reader left exactly after the message, so consecutive messages decode
    #[kani::proof]
    #[kani::unwind(8)]
    fn from_io_two_messages() {
        let stream: [u8; 6] = kani::any();
        let mut scratch = [0u8; 2];
        let rd = ShortReader { data: &stream[..], pos: 0, calls: 0, fail_at: usize::MAX };
        let want1 = take_from_bytes::<u16>(&stream[..]);
        match (from_io::<u16, _>((rd, &mut scratch[..])), want1) {
            (Ok((v, (rd2, sc2))), Ok((w, rest))) => {
                assert!(v == w, "SPEC: reader decoding must yield the slice-decoded value");
                assert!(rd2.pos == 6 - rest.len(), "SPEC: decoding must consume precisely the bytes of the message");
                let want2 = take_from_bytes::<u16>(rest);
                match (from_io::<u16, _>((rd2, sc2)), want2) {
                    (Ok((v2, (rd3, _))), Ok((w2, rest2))) => {
                        assert!(v2 == w2 && rd3.pos == 6 - rest2.len(), "SPEC: second message from the same stream");
                    }
                    (Err(_), Err(_)) => {}
                    _ => panic!("SPEC: second message: reader and slice decoding disagree"),
                }
            }
            (Err(_), Err(_)) => {}
            _ => panic!("SPEC: reader and slice decoding disagree"),
        }
    }

    /// writer accepting data in nondeterministic pieces; from a nondeterministic call on it is FULL (accepts 0 bytes, as the stock
    /// `&mut [u8]` / `Cursor` writers do) or fails with an error
    struct PartialWriter {
        buf: [u8; 8],
        len: usize,
        calls: usize,
        fail_at: usize,
        full_at: usize,
        refused: bool,
        flushed: u8,
    }
    impl std::io::Write for PartialWriter {
        fn write(&mut self, b: &[u8]) -> std::io::Result<usize> {
            let call = self.calls;
            self.calls += 1;
            if call >= self.fail_at {
                self.refused = true;
                return Err(std::io::Error::from(std::io::ErrorKind::Other));
            }
            if b.is_empty() {
                return Ok(0);
            }
            if call >= self.full_at {
                self.refused = true;
                return Ok(0);
            }
            let n: usize = kani::any();
            kani::assume(n >= 1 && n <= b.len() && n <= 8 - self.len);
            let mut i = 0;
            while i < n {
                self.buf[self.len + i] = b[i];
                i += 1;
            }
            self.len += n;
            Ok(n)
        }
        fn flush(&mut self) -> std::io::Result<()> {
            self.flushed += 1;
            Ok(())
        }
    }

    /// to_io over such a writer: Ok ==> the writer received exactly the plain encoding (and one flush);
    /// a refusing / failing writer ==> Err, never a panic, never a silently truncated Ok
    #[kani::proof]
    #[kani::unwind(8)]
    fn to_io_partial_writes() {
        let v: (u8, u16, u8) = kani::any();
        let mut plain = [0u8; 5];
        let pl = to_slice(&v, &mut plain).unwrap().len();
        let fail_at: usize = kani::any();
        let full_at: usize = kani::any();
        let w = PartialWriter { buf: [0; 8], len: 0, calls: 0, fail_at, full_at, refused: false, flushed: 0 };
        match to_io(&v, w) {
            Ok(w) => {
                kani::cover!(true);
                assert!(w.len == pl, "SPEC: to_io returned Ok although the writer did not receive the whole encoding");
                let i: usize = kani::any();
                kani::assume(i < pl);
                assert!(w.buf[i] == plain[i], "SPEC: the writer must receive exactly the plain encoding");
                assert!(w.flushed == 1);
            }
            Err(e) => {
                kani::cover!(true);
                assert!(fail_at < 8 || full_at < 8, "SPEC: to_io failed although the writer never refused");
                assert!(matches!(e, Error::SerializeBufferFull), "SPEC: a refusing writer must surface as an error");
            }
        }
    }

    /// flavour-level contract of the std WriteFlavor: try_push / try_extend hand exactly their bytes to the writer or fail
    #[kani::proof]
    #[kani::unwind(8)]
    fn writeflavor_contract() {
        use crate::ser_flavors::{io::WriteFlavor, Flavor};
        let fail_at: usize = kani::any();
        let full_at: usize = kani::any();
        let w = PartialWriter { buf: [0; 8], len: 0, calls: 0, fail_at, full_at, refused: false, flushed: 0 };
        let mut f = WriteFlavor::new(w);
        let d: u8 = kani::any();
        let blk: [u8; 3] = kani::any();
        let bl: usize = kani::any();
        kani::assume(bl <= 3);
        let r1 = f.try_push(d);
        let r2 = if r1.is_ok() { f.try_extend(&blk[..bl]) } else { Err(Error::SerializeBufferFull) };
        let w = f.finalize();
        kani::cover!(r1.is_err());
        kani::cover!(r1.is_ok() && r2.is_err());
        if let Ok(w) = w {
            if r1.is_ok() {
                assert!(w.len >= 1 && w.buf[0] == d, "SPEC: try_push returned Ok although the byte did not reach the writer");
            }
            if r1.is_ok() && r2.is_ok() {
                assert!(w.len == 1 + bl, "SPEC: try_extend returned Ok although the block did not reach the writer");
                let i: usize = kani::any();
                kani::assume(i < bl);
                assert!(w.buf[1 + i] == blk[i]);
            }
        }
    }
}
