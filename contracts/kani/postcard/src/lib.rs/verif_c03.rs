// C03: the decoder accepts exactly what the specification allows, per kind, through the public API,
// on EVERY byte string up to the stated length; reference decoders are written from wire-format.md.
#[cfg(kani)]
mod verif_c03 {
    use crate::verif_probes::*;
    use crate::verif_ref::*;
    use crate::*;

    fn input<const N: usize>() -> ([u8; N], usize) {
        let b: [u8; N] = kani::any();
        let l: usize = kani::any();
        kani::assume(l <= N);
        (b, l)
    }
    fn same_err(got: &Error, want: Error) {
        assert!(err_code(got) == err_code(&want), "SPEC: error kind differs from the first violated rule");
    }

    #[kani::proof]
    #[kani::unwind(6)]
    fn dec_bool_u8_i8() {
        let (b, l) = input::<3>();
        let inp = &b[..l];
        match take_from_bytes::<bool>(inp) {
            Ok((v, rest)) => {
                assert!(l >= 1 && b[0] <= 1 && v == (b[0] == 1), "SPEC: bool accepts exactly 0x00 / 0x01");
                assert!(rest.len() == l - 1);
            }
            Err(e) => {
                if l == 0 { same_err(&e, Error::DeserializeUnexpectedEnd) } else { assert!(b[0] > 1, "SPEC: rejected a valid bool"); same_err(&e, Error::DeserializeBadBool) }
            }
        }
        match take_from_bytes::<u8>(inp) {
            Ok((v, rest)) => assert!(l >= 1 && v == b[0] && rest.len() == l - 1),
            Err(e) => { assert!(l == 0); same_err(&e, Error::DeserializeUnexpectedEnd) }
        }
        match take_from_bytes::<i8>(inp) {
            Ok((v, rest)) => assert!(l >= 1 && v == b[0] as i8 && rest.len() == l - 1),
            Err(e) => { assert!(l == 0); same_err(&e, Error::DeserializeUnexpectedEnd) }
        }
    }

    macro_rules! dec_signed {
        ($name:ident, $ty:ty, $bits:expr, $n:expr) => {
            /// signed integers: varint(N) then inverse zig-zag, all byte strings <= max+1
            #[kani::proof]
            #[kani::unwind(22)]
            fn $name() {
                let (b, l) = input::<$n>();
                let inp = &b[..l];
                let want = ref_dec(inp, $bits);
                match (take_from_bytes::<$ty>(inp), want) {
                    (Ok((v, rest)), Ok((u, used))) => {
                        assert!(v as i128 == ref_unzz(u), "SPEC: decoded signed value differs");
                        assert!(rest.len() == l - used);
                    }
                    (Err(e), Err(f)) => same_err(&e, f),
                    _ => panic!("SPEC: accept/reject differs from the wire-format decoder"),
                }
            }
        };
    }
    dec_signed!(dec_i16, i16, 16, 4);
    dec_signed!(dec_i32, i32, 32, 6);
    dec_signed!(dec_i64, i64, 64, 11);
    dec_signed!(dec_i128, i128, 128, 20);

    #[kani::proof]
    #[kani::unwind(12)]
    fn dec_floats() {
        let (b, l) = input::<9>();
        let inp = &b[..l];
        match take_from_bytes::<f32>(inp) {
            Ok((v, rest)) => {
                assert!(l >= 4 && rest.len() == l - 4);
                assert!(v.to_bits() == (b[0] as u32) | (b[1] as u32) << 8 | (b[2] as u32) << 16 | (b[3] as u32) << 24, "SPEC: f32 is the little-endian IEEE-754 bit pattern");
            }
            Err(e) => { assert!(l < 4); same_err(&e, Error::DeserializeUnexpectedEnd) }
        }
        match take_from_bytes::<f64>(inp) {
            Ok((v, rest)) => {
                assert!(l >= 8 && rest.len() == l - 8);
                let mut w: u64 = 0;
                let mut k = 0;
                while k < 8 { w |= (b[k] as u64) << (8 * k); k += 1; }
                assert!(v.to_bits() == w, "SPEC: f64 is the little-endian IEEE-754 bit pattern");
            }
            Err(e) => { assert!(l < 8); same_err(&e, Error::DeserializeUnexpectedEnd) }
        }
    }

    #[kani::proof]
    #[kani::unwind(8)]
    fn dec_option() {
        let (b, l) = input::<3>();
        let inp = &b[..l];
        match take_from_bytes::<Option<u8>>(inp) {
            Ok((None, rest)) => assert!(l >= 1 && b[0] == 0 && rest.len() == l - 1, "SPEC: None is 0x00"),
            Ok((Some(v), rest)) => assert!(l >= 2 && b[0] == 1 && v == b[1] && rest.len() == l - 2, "SPEC: Some is 0x01 + payload"),
            Err(e) => {
                if l == 0 { same_err(&e, Error::DeserializeUnexpectedEnd) }
                else if b[0] > 1 { same_err(&e, Error::DeserializeBadOption) }
                else { assert!(b[0] == 1 && l == 1, "SPEC: rejected a valid option"); same_err(&e, Error::DeserializeUnexpectedEnd) }
            }
        }
    }

    /// bytes: varint(usize) length, that many bytes. All byte strings <= 5.
    #[kani::proof]
    #[kani::unwind(12)]
    fn dec_bytes() {
        let (b, l) = input::<5>();
        let inp = &b[..l];
        let want = ref_dec(inp, 64);
        match (take_from_bytes::<&[u8]>(inp), &want) {
            (Ok((v, rest)), Ok((n, used))) => {
                let n = *n as usize;
                assert!(n <= l - *used, "SPEC: accepted a byte array longer than the input");
                assert!(v.len() == n && v.as_ptr() == inp[*used..].as_ptr(), "SPEC: borrowed bytes must be the n bytes after the length");
                assert!(rest.len() == l - *used - n);
            }
            (Err(e), Ok((n, used))) => { assert!(*n > (l - *used) as u128, "SPEC: rejected a valid byte array"); same_err(&e, Error::DeserializeUnexpectedEnd) }
            (Err(e), Err(f)) => same_err(&e, f.clone()),
            (Ok(_), Err(_)) => panic!("SPEC: accepted a byte array with an invalid length varint"),
        }
    }

    /// Well-formed UTF-8 byte sequences (Unicode Standard, Table 3-7), for strings of at most 3 bytes.
    fn ref_utf8_ok(s: &[u8]) -> bool {
        let mut i = 0;
        while i < s.len() {
            let b0 = s[i];
            if b0 < 0x80 {
                i += 1;
            } else if b0 >= 0xC2 && b0 <= 0xDF {
                if i + 1 >= s.len() || s[i + 1] < 0x80 || s[i + 1] > 0xBF { return false; }
                i += 2;
            } else if b0 >= 0xE0 && b0 <= 0xEF {
                if i + 2 >= s.len() { return false; }
                let lo = if b0 == 0xE0 { 0xA0 } else { 0x80 };
                let hi = if b0 == 0xED { 0x9F } else { 0xBF };
                if s[i + 1] < lo || s[i + 1] > hi || s[i + 2] < 0x80 || s[i + 2] > 0xBF { return false; }
                i += 3;
            } else {
                return false; // 4-byte forms need more than 3 bytes; C0, C1, F5.. are never valid
            }
        }
        true
    }

    /// str: single-byte length n <= 3, that many bytes, well-formed UTF-8. All such byte strings (<= 4 bytes); longer length
    /// prefixes take the same try_take_varint_usize + try_take_n path that dec_bytes covers.
    #[kani::proof]
    #[kani::unwind(5)]
    fn dec_str() {
        let (b, l) = input::<4>();
        kani::assume(b[0] < 0x80);
        let inp = &b[..l];
        match take_from_bytes::<&str>(inp) {
            Ok((v, rest)) => {
                let n = b[0] as usize;
                assert!(l >= 1 && n <= l - 1, "SPEC: accepted a string longer than the input");
                assert!(v.len() == n && v.as_ptr() == inp[1..].as_ptr(), "SPEC: borrowed str must be the n bytes after the length");
                assert!(ref_utf8_ok(&inp[1..1 + n]), "SPEC: accepted invalid UTF-8");
                assert!(rest.len() == l - 1 - n);
            }
            Err(e) => {
                if l == 0 || (b[0] as usize) > l - 1 { same_err(&e, Error::DeserializeUnexpectedEnd) }
                else {
                    let n = b[0] as usize;
                    assert!(!ref_utf8_ok(&inp[1..1 + n]), "SPEC: rejected a valid string");
                    same_err(&e, Error::DeserializeBadUtf8)
                }
            }
        }
    }

    /// from_utf8 replaced by its specification RESTRICTED to byte strings over ASCII u {0xFF} (0xFF never occurs in
    /// UTF-8, so such a string is valid iff it has no 0xFF): lets the str contract be checked for LONG strings, where
    /// running std's validator symbolically is out of CBMC's reach. Trusted: std's from_utf8 meets that specification.
    fn from_utf8_model(v: &[u8]) -> core::result::Result<&str, core::str::Utf8Error> {
        let mut i = 0;
        while i < v.len() {
            if v[i] >= 0x80 {
                let mut bad = [0xFFu8];
                return Err(core::str::from_utf8_mut(&mut bad).unwrap_err());
            }
            i += 1;
        }
        Ok(unsafe { core::str::from_utf8_unchecked(v) })
    }

    /// str, long form: length prefix < 128 (one byte), body up to 99 bytes over ASCII u {0xFF}, any tail.
    /// Ok iff the body fits and is valid; value is exactly the body, in place; remainder is what follows; error kinds.
    #[kani::proof]
    #[kani::stub(core::str::from_utf8, from_utf8_model)]
    #[kani::unwind(101)]
    fn dec_str_long() {
        const L: usize = 100;
        let b: [u8; L] = kani::any();
        let l: usize = kani::any();
        kani::assume(l <= L);
        kani::assume(b[0] < 0x80);
        let mut i = 1;
        while i < L {
            kani::assume(b[i] < 0x80 || b[i] == 0xFF);
            i += 1;
        }
        let inp = &b[..l];
        let n = b[0] as usize;
        let fits = l >= 1 && n <= l - 1;
        let mut valid = true;
        if fits {
            let mut k = 0;
            while k < n {
                if inp[1 + k] == 0xFF { valid = false; }
                k += 1;
            }
        }
        match take_from_bytes::<&str>(inp) {
            Ok((v, rest)) => {
                assert!(fits, "SPEC: accepted a string longer than the input");
                assert!(valid, "SPEC: accepted invalid UTF-8");
                assert!(v.len() == n && v.as_ptr() == inp[1..].as_ptr(), "SPEC: borrowed str must be the n bytes after the length");
                assert!(rest.len() == l - 1 - n && (rest.is_empty() || rest.as_ptr() == inp[1 + n..].as_ptr()), "SPEC: remainder is what follows the string");
            }
            Err(e) => {
                if !fits { same_err(&e, Error::DeserializeUnexpectedEnd) }
                else {
                    assert!(!valid, "SPEC: rejected a valid string");
                    same_err(&e, Error::DeserializeBadUtf8)
                }
            }
        }
    }

    /// char: a string holding exactly ONE unicode scalar value (1..=4 UTF-8 bytes). Every byte string of <= 6 bytes whose
    /// length prefix is a single byte (multi-byte length prefixes claim >= 128 bytes and share the varint path of dec_bytes).
    #[kani::proof]
    #[kani::unwind(7)]
    fn dec_char() {
        let (b, l) = input::<6>();
        kani::assume(b[0] < 0x80);
        let inp = &b[..l];
        match take_from_bytes::<char>(inp) {
            Ok((c, rest)) => {
                let n = b[0] as usize;
                assert!(l >= 1 && n >= 1 && n <= 4 && n <= l - 1, "SPEC: a char is 1..=4 UTF-8 bytes");
                let mut u = [0u8; 4];
                let enc = c.encode_utf8(&mut u);
                assert!(enc.len() == n, "SPEC: accepted a string that is not the UTF-8 form of exactly one scalar value");
                let i: usize = kani::any();
                kani::assume(i < n);
                assert!(enc.as_bytes()[i] == inp[1 + i], "SPEC: decoded char differs from the encoded scalar");
                assert!(rest.len() == l - 1 - n);
            }
            Err(e) => {
                if l == 0 { same_err(&e, Error::DeserializeUnexpectedEnd) }
                else if b[0] > 4 { same_err(&e, Error::DeserializeBadChar) }
                else if (b[0] as usize) > l - 1 { same_err(&e, Error::DeserializeUnexpectedEnd) }
                else { same_err(&e, Error::DeserializeBadChar) }
            }
        }
    }
    /// char, the other direction: every valid single-scalar encoding is accepted (with any tail)
    #[kani::proof]
    #[kani::unwind(7)]
    fn dec_char_accepts_valid() {
        let c: char = kani::any();
        let mut buf = [0u8; 6];
        let n = c.encode_utf8(&mut buf[1..5]).len();
        buf[0] = n as u8;
        let tail: u8 = kani::any();
        buf[1 + n] = tail;
        let (d, rest) = take_from_bytes::<char>(&buf[..n + 2]).unwrap();
        assert!(d == c && rest.len() == 1 && rest[0] == tail);
    }

    /// enum: varint(u32) variant index then the payload; an index outside the type's variants is rejected
    #[kani::proof]
    #[kani::unwind(8)]
    fn dec_enum() {
        let (b, l) = input::<7>();
        let inp = &b[..l];
        let want = ref_dec(inp, 32);
        match (take_from_bytes::<PE>(inp), &want) {
            (Ok((v, rest)), Ok((idx, used))) => {
                assert!(*idx <= 3, "SPEC: accepted a variant index the type does not have");
                match v {
                    PE::Unit => assert!(*idx == 0 && rest.len() == l - *used),
                    PE::New(x) => { assert!(*idx == 1); let r2 = ref_dec(&inp[*used..], 16).unwrap(); assert!(x as u128 == r2.0 && rest.len() == l - *used - r2.1) }
                    PE::Tup(x, y) => { assert!(*idx == 2 && x == inp[*used]); let r2 = ref_dec(&inp[*used + 1..], 16).unwrap(); assert!(y as i128 == ref_unzz(r2.0) && rest.len() == l - *used - 1 - r2.1) }
                    PE::Str { a, b: bb } => { assert!(*idx == 3 && inp[*used] <= 1 && a == (inp[*used] == 1)); let r2 = ref_dec(&inp[*used + 1..], 32).unwrap(); assert!(bb as u128 == r2.0 && rest.len() == l - *used - 1 - r2.1) }
                }
            }
            (Err(_), Ok((idx, used))) => {
                // must be justified by a violated rule in the payload or an unknown variant
                let p = &inp[*used..];
                let ok_payload = match *idx {
                    0 => true,
                    1 => ref_dec(p, 16).is_ok(),
                    2 => p.len() >= 1 && ref_dec(&p[1..], 16).is_ok(),
                    3 => p.len() >= 1 && p[0] <= 1 && ref_dec(&p[1..], 32).is_ok(),
                    _ => false,
                };
                assert!(!ok_payload, "SPEC: rejected a valid enum encoding");
            }
            (Err(e), Err(f)) => same_err(&e, f.clone()),
            (Ok(_), Err(_)) => panic!("SPEC: accepted an enum with an invalid variant-index varint"),
        }
    }

    macro_rules! prefix_eof {
        ($name:ident, $ty:ty, $n:expr, $unw:expr) => {
            /// every strict prefix of a valid message fails with unexpected-end
            #[kani::proof]
            #[kani::unwind($unw)]
            fn $name() {
                let v: $ty = kani::any();
                let mut buf = [0u8; $n];
                let used = to_slice(&v, &mut buf).unwrap().len();
                let cut: usize = kani::any();
                kani::assume(cut < used);
                match take_from_bytes::<$ty>(&buf[..cut]) {
                    Err(Error::DeserializeUnexpectedEnd) => {}
                    _ => panic!("SPEC: a strict prefix of a valid message must fail with DeserializeUnexpectedEnd"),
                }
            }
        };
    }
    prefix_eof!(prefix_eof_enum, PE, 8, 8);
    prefix_eof!(prefix_eof_tuple, (u8, u16, bool), 6, 6);
    prefix_eof!(prefix_eof_i64, i64, 10, 12);
    prefix_eof!(prefix_eof_option, Option<i32>, 6, 8);
    prefix_eof!(prefix_eof_struct, PS, 18, 8);
}
