// C20: stacked flavours compose as byte-stream transformers; a user flavour receives exactly the plain encoding.
#[cfg(kani)]
mod verif_c20 {
    use crate::ser_flavors::{crc::CrcModifier, AllocVec, Cobs, Flavor, HVec, Slice};
    use crate::verif_probes::*;
    use crate::verif_ref::*;
    use crate::*;
    use crc::{Crc, CRC_8_SMBUS};

    static C8: Crc<u8> = Crc::<u8>::new(&CRC_8_SMBUS);

    /// user flavour WITH a try_extend override
    struct RecExt {
        buf: [u8; 24],
        len: usize,
        finalized: u8,
    }
    impl Flavor for RecExt {
        type Output = ([u8; 24], usize, u8);
        fn try_push(&mut self, d: u8) -> Result<()> {
            self.buf[self.len] = d;
            self.len += 1;
            Ok(())
        }
        fn try_extend(&mut self, data: &[u8]) -> Result<()> {
            let mut i = 0;
            while i < data.len() {
                self.buf[self.len] = data[i];
                self.len += 1;
                i += 1;
            }
            Ok(())
        }
        fn finalize(mut self) -> Result<Self::Output> {
            self.finalized += 1;
            Ok((self.buf, self.len, self.finalized))
        }
    }
    /// user flavour WITHOUT a try_extend override (trait default)
    struct RecPush {
        buf: [u8; 24],
        len: usize,
    }
    impl Flavor for RecPush {
        type Output = ([u8; 24], usize);
        fn try_push(&mut self, d: u8) -> Result<()> {
            self.buf[self.len] = d;
            self.len += 1;
            Ok(())
        }
        fn finalize(self) -> Result<Self::Output> {
            Ok((self.buf, self.len))
        }
    }

    #[kani::proof]
    #[kani::unwind(24)]
    fn recorder() {
        let v: PE = kani::any();
        let mut plain = [0u8; 8];
        let pl = to_slice(&v, &mut plain).unwrap().len();
        let (b1, l1, fin) = serialize_with_flavor(&v, RecExt { buf: [0; 24], len: 0, finalized: 0 }).unwrap();
        let (b2, l2) = serialize_with_flavor(&v, RecPush { buf: [0; 24], len: 0 }).unwrap();
        assert!(l1 == pl && l2 == pl, "SPEC: a user flavour must receive exactly the plain encoding (length)");
        assert!(fin == 1, "SPEC: finalize is called exactly once");
        let i: usize = kani::any();
        kani::assume(i < pl);
        assert!(b1[i] == plain[i] && b2[i] == plain[i], "SPEC: a user flavour must receive exactly the plain encoding, in order");
    }

    fn expected_stack(v: &PTup, out: &mut [u8; 16]) -> usize {
        let mut inner = [0u8; 12];
        let pl = to_slice(v, &mut inner[..4]).unwrap().len();
        let a = CRC_8_SMBUS;
        let c = ref_crc(8, a.poly as u128, a.init as u128, a.refin, a.refout, a.xorout as u128, &inner[..pl]);
        inner[pl] = c as u8;
        let n = ref_cobs(&inner[..pl + 1], out);
        out[n] = 0;
        n + 1
    }

    /// checksum-then-COBS over Slice == COBS frame of (plain ++ checksum); undoing the layers in reverse recovers the value
    #[kani::proof]
    #[kani::unwind(24)]
    fn stack_crc_in_cobs_slice() {
        let v: PTup = kani::any();
        let mut want = [0u8; 16];
        let wl = expected_stack(&v, &mut want);
        let mut buf = [0u8; 16];
        let used = serialize_with_flavor(&v, CrcModifier::new(Cobs::try_new(Slice::new(&mut buf)).unwrap(), C8.digest())).unwrap().len();
        assert!(used == wl, "SPEC: stacked output length");
        let i: usize = kani::any();
        kani::assume(i < wl);
        assert!(buf[i] == want[i], "SPEC: checksum-then-COBS output must be the COBS frame of (plain ++ checksum)");
    }

    /// undoing the layers in reverse order (COBS decode, then CRC-checked decode) recovers the value
    #[kani::proof]
    #[kani::unwind(24)]
    fn stack_undo() {
        let v: PTup = kani::any();
        let mut buf = [0u8; 16];
        let used = serialize_with_flavor(&v, CrcModifier::new(Cobs::try_new(Slice::new(&mut buf)).unwrap(), C8.digest())).unwrap().len();
        let n = cobs::decode_in_place(&mut buf[..used]).unwrap();
        let back: PTup = de_flavors::crc::from_bytes_u8(&buf[..n], C8.digest()).unwrap();
        assert!(back == v, "SPEC: undoing the layers in reverse order must recover the value");
    }

    /// ... regardless of which storage is innermost
    #[kani::proof]
    #[kani::unwind(24)]
    fn stack_crc_in_cobs_hvec() {
        let v: PTup = kani::any();
        let mut want = [0u8; 16];
        let wl = expected_stack(&v, &mut want);
        let out = serialize_with_flavor(&v, CrcModifier::new(Cobs::try_new(HVec::<16>::new()).unwrap(), C8.digest())).unwrap();
        assert!(out.len() == wl);
        let i: usize = kani::any();
        kani::assume(i < wl);
        assert!(out[i] == want[i], "SPEC: stack over HVec differs");
    }
    /// growable-vector storage: same frame as over the slice, on a one-byte probe (Vec growth is expensive for CBMC)
    #[kani::proof]
    #[kani::unwind(10)]
    fn stack_crc_in_cobs_allocvec() {
        let v: u8 = kani::any();
        let mut buf = [0u8; 8];
        let used = serialize_with_flavor(&v, CrcModifier::new(Cobs::try_new(Slice::new(&mut buf)).unwrap(), C8.digest())).unwrap().len();
        let out = serialize_with_flavor(&v, CrcModifier::new(Cobs::try_new(AllocVec::new()).unwrap(), C8.digest())).unwrap();
        assert!(out.len() == used, "SPEC: stack over AllocVec differs in length");
        let i: usize = kani::any();
        kani::assume(i < used);
        assert!(out[i] == buf[i], "SPEC: stack over AllocVec differs");
        core::mem::forget(out);
    }

    /// The Flavor trait's contract for modifiers: handing over a block with ONE try_extend call is the same byte-stream
    /// transformation as pushing its bytes one by one - for every block length up to 72 (beyond any internal chunk size such as 64).
    /// The block contents are a fixed pattern with zeros sprinkled in; the length is symbolic.
    fn pattern() -> [u8; 72] {
        let mut d = [0u8; 72];
        let mut i = 0;
        while i < 72 {
            d[i] = if i % 7 == 3 { 0 } else { (i as u8).wrapping_mul(37).wrapping_add(1) };
            i += 1;
        }
        d
    }
    fn crc_extend_vs_pushes(len: usize) {
        let d = pattern();
        let mut a = CrcModifier::new(HVec::<80>::new(), C8.digest());
        a.try_extend(&d[..len]).unwrap();
        let oa = a.finalize().unwrap();
        let mut b = CrcModifier::new(HVec::<80>::new(), C8.digest());
        let mut i = 0;
        while i < 72 {
            if i < len {
                b.try_push(d[i]).unwrap();
            }
            i += 1;
        }
        let ob = b.finalize().unwrap();
        assert!(oa.len() == ob.len(), "SPEC: CrcModifier: one try_extend differs from byte-wise pushes (length)");
        let mut k = 0;
        while k < 80 {
            if k < oa.len() {
                assert!(oa[k] == ob[k], "SPEC: CrcModifier: one try_extend differs from byte-wise pushes (data or checksum)");
            }
            k += 1;
        }
    }
    macro_rules! crc_extend_len {
        ($name:ident, $($len:expr),*) => {
            /// fully concrete block lengths around plausible internal chunk sizes (CBMC executes these concretely)
            #[kani::proof]
            #[kani::unwind(82)]
            fn $name() {
                $( crc_extend_vs_pushes($len); )*
            }
        };
    }
    crc_extend_len!(extend_equals_pushes_crc, 0, 1, 9, 17, 33, 65, 72);

    #[kani::proof]
    #[kani::unwind(75)]
    fn extend_equals_pushes_cobs() {
        let d = pattern();
        let len: usize = kani::any();
        kani::assume(len <= 72);
        let mut a = Cobs::try_new(HVec::<90>::new()).unwrap();
        a.try_extend(&d[..len]).unwrap();
        let oa = a.finalize().unwrap();
        let mut b = Cobs::try_new(HVec::<90>::new()).unwrap();
        let mut i = 0;
        while i < 72 {
            if i < len {
                b.try_push(d[i]).unwrap();
            }
            i += 1;
        }
        let ob = b.finalize().unwrap();
        assert!(oa.len() == ob.len(), "SPEC: Cobs: one try_extend differs from byte-wise pushes (length)");
        let k: usize = kani::any();
        kani::assume(k < oa.len());
        assert!(oa[k] == ob[k], "SPEC: Cobs: one try_extend differs from byte-wise pushes");
    }
}
