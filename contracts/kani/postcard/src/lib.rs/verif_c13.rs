// C13: fixed-width adapters emit exactly size_of bytes in the chosen byte order, for every integer; decode returns it.
#[cfg(kani)]
mod verif_c13 {
    use crate::*;
    use serde::{Deserialize, Serialize};

    macro_rules! fix {
        ($name:ident, $sle:ident, $sbe:ident, $ty:ty, $n:expr) => {
            #[derive(Serialize, Deserialize, PartialEq, Eq, Debug)]
            struct $sle {
                #[serde(with = "crate::fixint::le")]
                x: $ty,
            }
            #[derive(Serialize, Deserialize, PartialEq, Eq, Debug)]
            struct $sbe {
                #[serde(with = "crate::fixint::be")]
                x: $ty,
            }
            #[kani::proof]
            #[kani::unwind(18)]
            fn $name() {
                let x: $ty = kani::any();
                let mut buf = [0u8; $n + 2];
                let used = to_slice(&$sle { x }, &mut buf).unwrap().len();
                assert!(used == $n, "SPEC: little-endian fixint must emit exactly size_of bytes");
                let i: usize = kani::any();
                kani::assume(i < $n);
                assert!(buf[i] == (x >> (8 * i)) as u8, "SPEC: little-endian fixint byte i must be bits 8i..8i+7");
                let back: $sle = from_bytes(&buf[..$n]).unwrap();
                assert!(back.x == x, "SPEC: little-endian fixint does not decode back");
                match from_bytes::<$sle>(&buf[..$n - 1]) {
                    Err(Error::DeserializeUnexpectedEnd) => {}
                    _ => panic!("SPEC: truncated fixint must be UnexpectedEnd"),
                }
                let mut buf2 = [0u8; $n + 2];
                let used2 = to_slice(&$sbe { x }, &mut buf2).unwrap().len();
                assert!(used2 == $n, "SPEC: big-endian fixint must emit exactly size_of bytes");
                assert!(buf2[i] == (x >> (8 * ($n - 1 - i))) as u8, "SPEC: big-endian fixint byte i must be bits from the top");
                let back2: $sbe = from_bytes(&buf2[..$n]).unwrap();
                assert!(back2.x == x, "SPEC: big-endian fixint does not decode back");
            }
        };
    }
    fix!(fix_u16, LeU16, BeU16, u16, 2);
    fix!(fix_i16, LeI16, BeI16, i16, 2);
    fix!(fix_u32, LeU32, BeU32, u32, 4);
    fix!(fix_i32, LeI32, BeI32, i32, 4);
    fix!(fix_u64, LeU64, BeU64, u64, 8);
    fix!(fix_i64, LeI64, BeI64, i64, 8);
    fix!(fix_u128, LeU128, BeU128, u128, 16);
    fix!(fix_i128, LeI128, BeI128, i128, 16);
}
