// C12: POSTCARD_MAX_SIZE of the built-in impls against the wire-format formulas, using marker types whose
// constants are distinct primes, so a missing / swapped / duplicated term changes the value.
#[cfg(kani)]
mod verif_maxsize {
    use super::*;
    use crate::verif_ref::*;

    struct M3;
    struct M5;
    struct M7;
    struct M11;
    struct M13;
    struct M17;
    impl MaxSize for M3 { const POSTCARD_MAX_SIZE: usize = 3; }
    impl MaxSize for M5 { const POSTCARD_MAX_SIZE: usize = 5; }
    impl MaxSize for M7 { const POSTCARD_MAX_SIZE: usize = 7; }
    impl MaxSize for M11 { const POSTCARD_MAX_SIZE: usize = 11; }
    impl MaxSize for M13 { const POSTCARD_MAX_SIZE: usize = 13; }
    impl MaxSize for M17 { const POSTCARD_MAX_SIZE: usize = 17; }

    /// kinds the property calls tight: the constant EQUALS the wire-format maximum
    #[kani::proof]
    fn const_tight() {
        assert!(bool::POSTCARD_MAX_SIZE == 1 && i8::POSTCARD_MAX_SIZE == 1 && u8::POSTCARD_MAX_SIZE == 1);
        assert!(i16::POSTCARD_MAX_SIZE == 3 && u16::POSTCARD_MAX_SIZE == 3);
        assert!(i32::POSTCARD_MAX_SIZE == 5 && u32::POSTCARD_MAX_SIZE == 5);
        assert!(i64::POSTCARD_MAX_SIZE == 10 && u64::POSTCARD_MAX_SIZE == 10);
        assert!(i128::POSTCARD_MAX_SIZE == 19 && u128::POSTCARD_MAX_SIZE == 19);
        assert!(isize::POSTCARD_MAX_SIZE == 10 && usize::POSTCARD_MAX_SIZE == 10);
        assert!(f32::POSTCARD_MAX_SIZE == 4 && f64::POSTCARD_MAX_SIZE == 8);
        assert!(char::POSTCARD_MAX_SIZE == 5); // varint(len<=4) + 4 UTF-8 bytes
        assert!(<()>::POSTCARD_MAX_SIZE == 0);
        assert!(<Option<M3>>::POSTCARD_MAX_SIZE == 4);
        assert!(<[M3; 7]>::POSTCARD_MAX_SIZE == 21 && <[M5; 0]>::POSTCARD_MAX_SIZE == 0);
        assert!(<(M3,)>::POSTCARD_MAX_SIZE == 3);
        assert!(<(M3, M5)>::POSTCARD_MAX_SIZE == 8);
        assert!(<(M3, M5, M7)>::POSTCARD_MAX_SIZE == 15);
        assert!(<(M3, M5, M7, M11)>::POSTCARD_MAX_SIZE == 26);
        assert!(<(M3, M5, M7, M11, M13)>::POSTCARD_MAX_SIZE == 39);
        assert!(<(M3, M5, M7, M11, M13, M17)>::POSTCARD_MAX_SIZE == 56);
        // fixed-capacity vectors / strings: N elements + varint(N)
        assert!(<heapless::Vec<M3, 0>>::POSTCARD_MAX_SIZE == 1);
        assert!(<heapless::Vec<M3, 1>>::POSTCARD_MAX_SIZE == 3 + 1);
        assert!(<heapless::Vec<M3, 127>>::POSTCARD_MAX_SIZE == 3 * 127 + 1);
        assert!(<heapless::Vec<M3, 128>>::POSTCARD_MAX_SIZE == 3 * 128 + 2);
        assert!(<heapless::Vec<M3, 16383>>::POSTCARD_MAX_SIZE == 3 * 16383 + 2);
        assert!(<heapless::Vec<M3, 16384>>::POSTCARD_MAX_SIZE == 3 * 16384 + 3);
        assert!(<heapless::String<0>>::POSTCARD_MAX_SIZE == 1);
        assert!(<heapless::String<127>>::POSTCARD_MAX_SIZE == 127 + 1);
        assert!(<heapless::String<128>>::POSTCARD_MAX_SIZE == 128 + 2);
    }

    /// other kinds: the constant is AT LEAST the wire-format maximum (a larger constant still satisfies the property)
    #[kani::proof]
    fn const_safe() {
        assert!(<Result<M3, M5>>::POSTCARD_MAX_SIZE >= 6 && <Result<M7, M5>>::POSTCARD_MAX_SIZE >= 8);
        assert!(<core::ops::Range<M3>>::POSTCARD_MAX_SIZE >= 6 && <core::ops::RangeInclusive<M3>>::POSTCARD_MAX_SIZE >= 6);
        assert!(<core::ops::RangeFrom<M3>>::POSTCARD_MAX_SIZE >= 3 && <core::ops::RangeTo<M3>>::POSTCARD_MAX_SIZE >= 3);
        assert!(<&M3>::POSTCARD_MAX_SIZE >= 3 && <&mut M3>::POSTCARD_MAX_SIZE >= 3);
        assert!(<Box<M3>>::POSTCARD_MAX_SIZE >= 3 && <Rc<M3>>::POSTCARD_MAX_SIZE >= 3 && <Arc<M3>>::POSTCARD_MAX_SIZE >= 3);
        assert!(<PhantomData<M3>>::POSTCARD_MAX_SIZE == 0);
        assert!(NonZeroI8::POSTCARD_MAX_SIZE >= 1 && NonZeroU8::POSTCARD_MAX_SIZE >= 1);
        assert!(NonZeroI16::POSTCARD_MAX_SIZE >= 3 && NonZeroU16::POSTCARD_MAX_SIZE >= 3);
        assert!(NonZeroI32::POSTCARD_MAX_SIZE >= 5 && NonZeroU32::POSTCARD_MAX_SIZE >= 5);
        assert!(NonZeroI64::POSTCARD_MAX_SIZE >= 10 && NonZeroU64::POSTCARD_MAX_SIZE >= 10);
        assert!(NonZeroI128::POSTCARD_MAX_SIZE >= 19 && NonZeroU128::POSTCARD_MAX_SIZE >= 19);
        assert!(NonZeroIsize::POSTCARD_MAX_SIZE >= 10 && NonZeroUsize::POSTCARD_MAX_SIZE >= 10);
    }

    /// varint_size(n) == length of the canonical varint of n, for EVERY n
    #[kani::proof]
    #[kani::unwind(21)]
    fn varint_size_exact() {
        let n: usize = kani::any();
        let mut r = [0u8; 10];
        let l = ref_enc64(n as u64, &mut r);
        kani::cover!(l == 10);
        kani::cover!(l == 1);
        assert!(varint_size(n) == l, "SPEC: varint_size(n) must be the encoded length of n");
    }

    macro_rules! value_bound {
        ($name:ident, $ty:ty, $unw:expr) => {
            /// serialized_size(v) <= POSTCARD_MAX_SIZE for every value, and the bound is attained
            #[kani::proof]
            #[kani::unwind($unw)]
            fn $name() {
                let v: $ty = kani::any();
                let sz = crate::ser::serialized_size(&v).unwrap();
                kani::cover!(sz == <$ty>::POSTCARD_MAX_SIZE);
                assert!(sz <= <$ty>::POSTCARD_MAX_SIZE, "SPEC: encoded size exceeds POSTCARD_MAX_SIZE");
            }
        };
    }
    value_bound!(value_u16, u16, 5);
    value_bound!(value_i16, i16, 5);
    value_bound!(value_u32, u32, 7);
    value_bound!(value_i32, i32, 7);
    value_bound!(value_u64, u64, 12);
    value_bound!(value_i64, i64, 12);
    value_bound!(value_u128, u128, 21);
    value_bound!(value_i128, i128, 21);
    value_bound!(value_usize, usize, 12);
    value_bound!(value_bool, bool, 3);
    value_bound!(value_f64, f64, 10);
    value_bound!(value_option, Option<u32>, 7);
    value_bound!(value_tuple, (u8, i32, bool), 7);
    value_bound!(value_array, [u16; 3], 8);
    value_bound!(value_result, Result<u16, u8>, 7);
    value_bound!(value_char, char, 12);
}
