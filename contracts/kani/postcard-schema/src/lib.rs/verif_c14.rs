// C14: a type's Schema describes exactly what its Serialize writes.
// `Rec` is a recording serde::Serializer (fixed-capacity event log); `conforms` is a checker written from the
// documented meaning of the schema types (kind, arity, field names & order, variant names & indices, element kinds).
// Struct / enum TYPE names are not compared (the property lists kinds, field/variant names, indices, arity, element types).
#[cfg(kani)]
#[allow(dead_code)]
pub(crate) mod verif_c14 {
    use crate::schema::{Data, DataModelType, NamedField, Variant};
    use crate::Schema;
    use serde::ser::{self, Serialize};

    #[derive(Clone, Copy, PartialEq, Debug)]
    pub enum Ev {
        Bool, I8, I16, I32, I64, I128, U8, U16, U32, U64, U128, F32, F64, Char, Str, Bytes,
        None, Some, Unit, UnitStruct,
        UnitVariant(u32, &'static str),
        NewtypeStruct,
        NewtypeVariant(u32, &'static str),
        Seq(usize), SeqEnd,
        Tuple(usize), TupleEnd,
        TupleStruct(usize), TupleStructEnd,
        TupleVariant(u32, &'static str, usize), TupleVariantEnd,
        Map(usize), MapEnd,
        Struct(usize), Field(&'static str), StructEnd,
        StructVariant(u32, &'static str, usize), StructVariantEnd,
        Pad,
    }

    pub const CAP: usize = 24;
    pub struct Log {
        pub ev: [Ev; CAP],
        pub n: usize,
    }
    impl Log {
        pub fn new() -> Self {
            Log { ev: [Ev::Pad; CAP], n: 0 }
        }
        fn push(&mut self, e: Ev) {
            self.ev[self.n] = e;
            self.n += 1;
        }
    }
    #[derive(Debug)]
    pub struct RecErr;
    impl core::fmt::Display for RecErr {
        fn fmt(&self, f: &mut core::fmt::Formatter) -> core::fmt::Result {
            f.write_str("rec")
        }
    }
    impl ser::StdError for RecErr {}
    impl ser::Error for RecErr {
        fn custom<T: core::fmt::Display>(_m: T) -> Self {
            RecErr
        }
    }

    pub struct Rec<'a>(pub &'a mut Log);
    pub struct RecC<'a>(&'a mut Log, Ev);

    macro_rules! leaf {
        ($m:ident, $t:ty, $e:expr) => {
            fn $m(self, _v: $t) -> Result<(), RecErr> {
                self.0.push($e);
                Ok(())
            }
        };
    }
    impl<'a> ser::Serializer for Rec<'a> {
        type Ok = ();
        type Error = RecErr;
        type SerializeSeq = RecC<'a>;
        type SerializeTuple = RecC<'a>;
        type SerializeTupleStruct = RecC<'a>;
        type SerializeTupleVariant = RecC<'a>;
        type SerializeMap = RecC<'a>;
        type SerializeStruct = RecC<'a>;
        type SerializeStructVariant = RecC<'a>;
        leaf!(serialize_bool, bool, Ev::Bool);
        leaf!(serialize_i8, i8, Ev::I8);
        leaf!(serialize_i16, i16, Ev::I16);
        leaf!(serialize_i32, i32, Ev::I32);
        leaf!(serialize_i64, i64, Ev::I64);
        leaf!(serialize_i128, i128, Ev::I128);
        leaf!(serialize_u8, u8, Ev::U8);
        leaf!(serialize_u16, u16, Ev::U16);
        leaf!(serialize_u32, u32, Ev::U32);
        leaf!(serialize_u64, u64, Ev::U64);
        leaf!(serialize_u128, u128, Ev::U128);
        leaf!(serialize_f32, f32, Ev::F32);
        leaf!(serialize_f64, f64, Ev::F64);
        leaf!(serialize_char, char, Ev::Char);
        leaf!(serialize_str, &str, Ev::Str);
        leaf!(serialize_bytes, &[u8], Ev::Bytes);
        fn serialize_none(self) -> Result<(), RecErr> {
            self.0.push(Ev::None);
            Ok(())
        }
        fn serialize_some<T: ?Sized + Serialize>(self, v: &T) -> Result<(), RecErr> {
            self.0.push(Ev::Some);
            v.serialize(Rec(self.0))
        }
        fn serialize_unit(self) -> Result<(), RecErr> {
            self.0.push(Ev::Unit);
            Ok(())
        }
        fn serialize_unit_struct(self, _n: &'static str) -> Result<(), RecErr> {
            self.0.push(Ev::UnitStruct);
            Ok(())
        }
        fn serialize_unit_variant(self, _n: &'static str, i: u32, v: &'static str) -> Result<(), RecErr> {
            self.0.push(Ev::UnitVariant(i, v));
            Ok(())
        }
        fn serialize_newtype_struct<T: ?Sized + Serialize>(self, _n: &'static str, v: &T) -> Result<(), RecErr> {
            self.0.push(Ev::NewtypeStruct);
            v.serialize(Rec(self.0))
        }
        fn serialize_newtype_variant<T: ?Sized + Serialize>(self, _n: &'static str, i: u32, vn: &'static str, v: &T) -> Result<(), RecErr> {
            self.0.push(Ev::NewtypeVariant(i, vn));
            v.serialize(Rec(self.0))
        }
        fn serialize_seq(self, len: Option<usize>) -> Result<RecC<'a>, RecErr> {
            self.0.push(Ev::Seq(len.ok_or(RecErr)?));
            Ok(RecC(self.0, Ev::SeqEnd))
        }
        fn serialize_tuple(self, len: usize) -> Result<RecC<'a>, RecErr> {
            self.0.push(Ev::Tuple(len));
            Ok(RecC(self.0, Ev::TupleEnd))
        }
        fn serialize_tuple_struct(self, _n: &'static str, len: usize) -> Result<RecC<'a>, RecErr> {
            self.0.push(Ev::TupleStruct(len));
            Ok(RecC(self.0, Ev::TupleStructEnd))
        }
        fn serialize_tuple_variant(self, _n: &'static str, i: u32, v: &'static str, len: usize) -> Result<RecC<'a>, RecErr> {
            self.0.push(Ev::TupleVariant(i, v, len));
            Ok(RecC(self.0, Ev::TupleVariantEnd))
        }
        fn serialize_map(self, len: Option<usize>) -> Result<RecC<'a>, RecErr> {
            self.0.push(Ev::Map(len.ok_or(RecErr)?));
            Ok(RecC(self.0, Ev::MapEnd))
        }
        fn serialize_struct(self, _n: &'static str, len: usize) -> Result<RecC<'a>, RecErr> {
            self.0.push(Ev::Struct(len));
            Ok(RecC(self.0, Ev::StructEnd))
        }
        fn serialize_struct_variant(self, _n: &'static str, i: u32, v: &'static str, len: usize) -> Result<RecC<'a>, RecErr> {
            self.0.push(Ev::StructVariant(i, v, len));
            Ok(RecC(self.0, Ev::StructVariantEnd))
        }
        fn collect_str<T: ?Sized + core::fmt::Display>(self, _v: &T) -> Result<(), RecErr> {
            self.0.push(Ev::Str);
            Ok(())
        }
        fn is_human_readable(&self) -> bool {
            false
        }
    }
    macro_rules! compound {
        ($tr:path, $m:ident) => {
            impl<'a> $tr for RecC<'a> {
                type Ok = ();
                type Error = RecErr;
                fn $m<T: ?Sized + Serialize>(&mut self, v: &T) -> Result<(), RecErr> {
                    v.serialize(Rec(self.0))
                }
                fn end(self) -> Result<(), RecErr> {
                    self.0.push(self.1);
                    Ok(())
                }
            }
        };
    }
    compound!(ser::SerializeSeq, serialize_element);
    compound!(ser::SerializeTuple, serialize_element);
    compound!(ser::SerializeTupleStruct, serialize_field);
    compound!(ser::SerializeTupleVariant, serialize_field);
    impl<'a> ser::SerializeMap for RecC<'a> {
        type Ok = ();
        type Error = RecErr;
        fn serialize_key<T: ?Sized + Serialize>(&mut self, v: &T) -> Result<(), RecErr> {
            v.serialize(Rec(self.0))
        }
        fn serialize_value<T: ?Sized + Serialize>(&mut self, v: &T) -> Result<(), RecErr> {
            v.serialize(Rec(self.0))
        }
        fn end(self) -> Result<(), RecErr> {
            self.0.push(self.1);
            Ok(())
        }
    }
    impl<'a> ser::SerializeStruct for RecC<'a> {
        type Ok = ();
        type Error = RecErr;
        fn serialize_field<T: ?Sized + Serialize>(&mut self, k: &'static str, v: &T) -> Result<(), RecErr> {
            self.0.push(Ev::Field(k));
            v.serialize(Rec(self.0))
        }
        fn end(self) -> Result<(), RecErr> {
            self.0.push(self.1);
            Ok(())
        }
    }
    impl<'a> ser::SerializeStructVariant for RecC<'a> {
        type Ok = ();
        type Error = RecErr;
        fn serialize_field<T: ?Sized + Serialize>(&mut self, k: &'static str, v: &T) -> Result<(), RecErr> {
            self.0.push(Ev::Field(k));
            v.serialize(Rec(self.0))
        }
        fn end(self) -> Result<(), RecErr> {
            self.0.push(self.1);
            Ok(())
        }
    }

    fn str_eq(a: &str, b: &str) -> bool {
        let (a, b) = (a.as_bytes(), b.as_bytes());
        if a.len() != b.len() {
            return false;
        }
        let mut i = 0;
        while i < a.len() {
            if a[i] != b[i] {
                return false;
            }
            i += 1;
        }
        true
    }

    /// Does the event log, from position `p`, start with one value of schema `s`? Returns the position after it.
    pub fn conforms(s: &DataModelType, l: &Log, p: usize) -> Option<usize> {
        if p >= l.n {
            return Option::None;
        }
        let e = l.ev[p];
        let leaf = |want: Ev| if e == want { Option::Some(p + 1) } else { Option::None };
        match s {
            DataModelType::Bool => leaf(Ev::Bool),
            DataModelType::I8 => leaf(Ev::I8),
            DataModelType::U8 => leaf(Ev::U8),
            DataModelType::I16 => leaf(Ev::I16),
            DataModelType::I32 => leaf(Ev::I32),
            DataModelType::I64 => leaf(Ev::I64),
            DataModelType::I128 => leaf(Ev::I128),
            DataModelType::U16 => leaf(Ev::U16),
            DataModelType::U32 => leaf(Ev::U32),
            DataModelType::U64 => leaf(Ev::U64),
            DataModelType::U128 => leaf(Ev::U128),
            DataModelType::Usize => leaf(Ev::U64), // serde maps usize to u64
            DataModelType::Isize => leaf(Ev::I64),
            DataModelType::F32 => leaf(Ev::F32),
            DataModelType::F64 => leaf(Ev::F64),
            DataModelType::Char => leaf(Ev::Char),
            DataModelType::String => leaf(Ev::Str),
            DataModelType::ByteArray => leaf(Ev::Bytes),
            DataModelType::Unit => leaf(Ev::Unit),
            DataModelType::Schema => Option::None, // not covered here
            DataModelType::Option(t) => match e {
                Ev::None => Option::Some(p + 1),
                Ev::Some => conforms(t, l, p + 1),
                _ => Option::None,
            },
            DataModelType::Seq(t) => match e {
                Ev::Seq(n) => {
                    let mut q = p + 1;
                    let mut i = 0;
                    while i < n {
                        q = conforms(t, l, q)?;
                        i += 1;
                    }
                    if q < l.n && l.ev[q] == Ev::SeqEnd { Option::Some(q + 1) } else { Option::None }
                }
                _ => Option::None,
            },
            DataModelType::Tuple(ts) => match e {
                Ev::Tuple(n) if n == ts.len() => {
                    let q = conforms_all(ts, l, p + 1)?;
                    if q < l.n && l.ev[q] == Ev::TupleEnd { Option::Some(q + 1) } else { Option::None }
                }
                _ => Option::None,
            },
            DataModelType::Map { key, val } => match e {
                Ev::Map(n) => {
                    let mut q = p + 1;
                    let mut i = 0;
                    while i < n {
                        q = conforms(key, l, q)?;
                        q = conforms(val, l, q)?;
                        i += 1;
                    }
                    if q < l.n && l.ev[q] == Ev::MapEnd { Option::Some(q + 1) } else { Option::None }
                }
                _ => Option::None,
            },
            DataModelType::Struct { name: _, data } => match (data, e) {
                (Data::Unit, Ev::UnitStruct) => Option::Some(p + 1),
                (Data::Newtype(t), Ev::NewtypeStruct) => conforms(t, l, p + 1),
                (Data::Tuple(ts), Ev::TupleStruct(n)) if n == ts.len() => {
                    let q = conforms_all(ts, l, p + 1)?;
                    if q < l.n && l.ev[q] == Ev::TupleStructEnd { Option::Some(q + 1) } else { Option::None }
                }
                (Data::Struct(fs), Ev::Struct(n)) if n == fs.len() => {
                    let q = conforms_fields(fs, l, p + 1)?;
                    if q < l.n && l.ev[q] == Ev::StructEnd { Option::Some(q + 1) } else { Option::None }
                }
                _ => Option::None,
            },
            DataModelType::Enum { name: _, variants } => {
                let (idx, vname) = match e {
                    Ev::UnitVariant(i, v) | Ev::NewtypeVariant(i, v) => (i, v),
                    Ev::TupleVariant(i, v, _) | Ev::StructVariant(i, v, _) => (i, v),
                    _ => return Option::None,
                };
                if idx as usize >= variants.len() {
                    return Option::None;
                }
                let var: &Variant = variants[idx as usize];
                if !str_eq(var.name, vname) {
                    return Option::None;
                }
                match (&var.data, e) {
                    (Data::Unit, Ev::UnitVariant(..)) => Option::Some(p + 1),
                    (Data::Newtype(t), Ev::NewtypeVariant(..)) => conforms(t, l, p + 1),
                    (Data::Tuple(ts), Ev::TupleVariant(_, _, n)) if n == ts.len() => {
                        let q = conforms_all(ts, l, p + 1)?;
                        if q < l.n && l.ev[q] == Ev::TupleVariantEnd { Option::Some(q + 1) } else { Option::None }
                    }
                    (Data::Struct(fs), Ev::StructVariant(_, _, n)) if n == fs.len() => {
                        let q = conforms_fields(fs, l, p + 1)?;
                        if q < l.n && l.ev[q] == Ev::StructVariantEnd { Option::Some(q + 1) } else { Option::None }
                    }
                    _ => Option::None,
                }
            }
        }
    }
    fn conforms_all(ts: &[&DataModelType], l: &Log, p: usize) -> Option<usize> {
        let mut q = p;
        let mut i = 0;
        while i < ts.len() {
            q = conforms(ts[i], l, q)?;
            i += 1;
        }
        Option::Some(q)
    }
    fn conforms_fields(fs: &[&NamedField], l: &Log, p: usize) -> Option<usize> {
        let mut q = p;
        let mut i = 0;
        while i < fs.len() {
            if q >= l.n {
                return Option::None;
            }
            match l.ev[q] {
                Ev::Field(k) if str_eq(k, fs[i].name) => {}
                _ => return Option::None,
            }
            q = conforms(fs[i].ty, l, q + 1)?;
            i += 1;
        }
        Option::Some(q)
    }

    /// the obligation: the WHOLE event sequence of v is exactly one value of T::SCHEMA
    pub fn check<T: Schema + Serialize + ?Sized>(v: &T) {
        let mut log = Log::new();
        v.serialize(Rec(&mut log)).unwrap();
        assert!(conforms(T::SCHEMA, &log, 0) == Option::Some(log.n), "SPEC: the value's data-model items do not conform to the type's schema");
    }

    /// marker element types: opaque one-event Serialize with a distinct leaf schema each, standing for "any T"
    pub struct MA;
    pub struct MB;
    pub struct MC;
    pub struct MD;
    pub struct ME;
    pub struct MF;
    impl Schema for MA { const SCHEMA: &'static DataModelType = &DataModelType::I128; }
    impl Schema for MB { const SCHEMA: &'static DataModelType = &DataModelType::F32; }
    impl Schema for MC { const SCHEMA: &'static DataModelType = &DataModelType::U16; }
    impl Schema for MD { const SCHEMA: &'static DataModelType = &DataModelType::Bool; }
    impl Schema for ME { const SCHEMA: &'static DataModelType = &DataModelType::Char; }
    impl Schema for MF { const SCHEMA: &'static DataModelType = &DataModelType::I8; }
    impl Serialize for MA { fn serialize<S: ser::Serializer>(&self, s: S) -> Result<S::Ok, S::Error> { s.serialize_i128(0) } }
    impl Serialize for MB { fn serialize<S: ser::Serializer>(&self, s: S) -> Result<S::Ok, S::Error> { s.serialize_f32(0.0) } }
    impl Serialize for MC { fn serialize<S: ser::Serializer>(&self, s: S) -> Result<S::Ok, S::Error> { s.serialize_u16(0) } }
    impl Serialize for MD { fn serialize<S: ser::Serializer>(&self, s: S) -> Result<S::Ok, S::Error> { s.serialize_bool(true) } }
    impl Serialize for ME { fn serialize<S: ser::Serializer>(&self, s: S) -> Result<S::Ok, S::Error> { s.serialize_char('x') } }
    impl Serialize for MF { fn serialize<S: ser::Serializer>(&self, s: S) -> Result<S::Ok, S::Error> { s.serialize_i8(0) } }

    macro_rules! scalar {
        ($name:ident, $t:ty) => {
            #[kani::proof]
            #[kani::unwind(10)]
            fn $name() {
                let v: $t = kani::any();
                check(&v);
            }
        };
    }
    scalar!(b_bool, bool);
    scalar!(b_u8, u8);
    scalar!(b_i8, i8);
    scalar!(b_u16, u16);
    scalar!(b_i16, i16);
    scalar!(b_u32, u32);
    scalar!(b_i32, i32);
    scalar!(b_u64, u64);
    scalar!(b_i64, i64);
    scalar!(b_u128, u128);
    scalar!(b_i128, i128);
    scalar!(b_f32, f32);
    scalar!(b_f64, f64);
    scalar!(b_char, char);
    scalar!(b_unit, ());
    scalar!(b_nz_u8, core::num::NonZeroU8);
    scalar!(b_nz_i8, core::num::NonZeroI8);
    scalar!(b_nz_u16, core::num::NonZeroU16);
    scalar!(b_nz_i16, core::num::NonZeroI16);
    scalar!(b_nz_u32, core::num::NonZeroU32);
    scalar!(b_nz_i32, core::num::NonZeroI32);
    scalar!(b_nz_u64, core::num::NonZeroU64);
    scalar!(b_nz_i64, core::num::NonZeroI64);
    scalar!(b_nz_u128, core::num::NonZeroU128);
    scalar!(b_nz_i128, core::num::NonZeroI128);

    #[kani::proof]
    #[kani::unwind(10)]
    fn b_generic_shapes() {
        let some: bool = kani::any();
        check(&(if some { Option::Some(MA) } else { Option::None }));
        let ok: bool = kani::any();
        let r: Result<MA, MB> = if ok { Ok(MA) } else { Err(MB) };
        check(&r);
        check(&&MA);
        check(&(MA,));
        check(&(MA, MB));
        check(&(MA, MB, MC));
        check(&(MA, MB, MC, MD));
        check(&(MA, MB, MC, MD, ME));
        check(&(MA, MB, MC, MD, ME, MF));
        check(&[MA, MA, MA]);
        check::<[MB; 0]>(&[]);
    }
    #[kani::proof]
    #[kani::unwind(10)]
    fn b_ranges() {
        check(&(MA..MA));
        check(&(MA..=MA));
        check(&(MA..));
        check(&(..MA));
    }
    #[kani::proof]
    #[kani::unwind(10)]
    fn b_str_slices() {
        check::<str>("ab");
        let n: usize = kani::any();
        kani::assume(n <= 2);
        let arr = [MA, MA];
        check::<[MA]>(&arr[..n]);
    }
    /// collections that cannot be serialised here (heapless without its serde feature; std maps/sets cannot be driven under
    /// CBMC): only the SHAPE of the constant is checked - Seq(T) / Map{K,V} / String with marker element types.
    #[kani::proof]
    #[kani::unwind(10)]
    fn b_collection_shapes() {
        use crate::schema::DataModelType as D;
        assert!(*<heapless_v0_7::Vec<MB, 2> as Schema>::SCHEMA == D::Seq(MB::SCHEMA));
        assert!(*<heapless_v0_7::String<4> as Schema>::SCHEMA == D::String);
        assert!(*<std::vec::Vec<MA> as Schema>::SCHEMA == D::Seq(MA::SCHEMA));
        assert!(*<std::string::String as Schema>::SCHEMA == D::String);
        assert!(*<std::collections::BTreeMap<MA, MB> as Schema>::SCHEMA == D::Map { key: MA::SCHEMA, val: MB::SCHEMA });
        assert!(*<std::collections::HashMap<MA, MB> as Schema>::SCHEMA == D::Map { key: MA::SCHEMA, val: MB::SCHEMA });
        assert!(*<std::collections::BTreeSet<MB> as Schema>::SCHEMA == D::Seq(MB::SCHEMA));
        assert!(*<std::collections::HashSet<MB> as Schema>::SCHEMA == D::Seq(MB::SCHEMA));
    }
    #[kani::proof]
    #[kani::unwind(12)]
    fn b_key() {
        let k = unsafe { crate::key::Key::from_bytes(kani::any()) };
        check(&k);
    }

    // ---- derive corpus (bounded stand-in: the derive is a token-stream generator, no contract can quantify over its inputs)
    #[derive(serde::Serialize, crate::Schema)]
    #[postcard(crate = crate)]
    struct DUnit;
    #[derive(serde::Serialize, crate::Schema)]
    #[postcard(crate = crate)]
    struct DNew(u16);
    #[derive(serde::Serialize, crate::Schema)]
    #[postcard(crate = crate)]
    struct DTup(u8, i32);
    #[derive(serde::Serialize, crate::Schema)]
    #[postcard(crate = crate)]
    struct DNamed {
        alpha: u8,
        beta: Option<i16>,
    }
    #[derive(serde::Serialize, crate::Schema)]
    #[postcard(crate = crate)]
    struct DGeneric<T> {
        inner: T,
        n: u32,
    }
    #[derive(serde::Serialize, crate::Schema)]
    #[postcard(crate = crate)]
    struct DLife<'a> {
        s: &'a str,
    }
    #[derive(serde::Serialize, crate::Schema)]
    #[postcard(crate = crate)]
    enum DEnum {
        A,
        B(u8),
        C(u8, u16),
        D { x: bool, y: DNew },
    }
    #[kani::proof]
    #[kani::unwind(12)]
    fn d_structs() {
        check(&DUnit);
        check(&DNew(kani::any()));
        check(&DTup(kani::any(), kani::any()));
        check(&DNamed { alpha: kani::any(), beta: kani::any() });
        check(&DGeneric { inner: MA, n: kani::any() });
        check(&DLife { s: "x" });
    }
    macro_rules! d_enum_variant {
        ($name:ident, $v:expr) => {
            #[kani::proof]
            #[kani::unwind(5)]
            fn $name() {
                check(&$v);
            }
        };
    }
    d_enum_variant!(d_enum_unit, DEnum::A);
    d_enum_variant!(d_enum_newtype, DEnum::B(kani::any()));
    // tuple / struct variants: the recursive checker is intractable for CBMC here (it does not resolve the &'static schema
    // references of the derive output and unwinds `conforms` over every kind at every level - no verdict in 15 min, measured).
    // They are checked with a NON-recursive one-level checker: variant index / name / form / arity / field names and order,
    // and each payload item against a LEAF schema.
    fn leaf_ok(s: &DataModelType, e: Ev) -> bool {
        match s {
            DataModelType::Bool => e == Ev::Bool,
            DataModelType::I8 => e == Ev::I8,
            DataModelType::U8 => e == Ev::U8,
            DataModelType::I16 => e == Ev::I16,
            DataModelType::I32 => e == Ev::I32,
            DataModelType::I64 => e == Ev::I64,
            DataModelType::U16 => e == Ev::U16,
            DataModelType::U32 => e == Ev::U32,
            DataModelType::U64 => e == Ev::U64,
            DataModelType::F32 => e == Ev::F32,
            DataModelType::F64 => e == Ev::F64,
            DataModelType::Char => e == Ev::Char,
            DataModelType::String => e == Ev::Str,
            _ => false,
        }
    }
    /// events of ONE enum value whose payload items are leaves, against an Enum schema (no recursion)
    fn enum_flat_ok(s: &DataModelType, l: &Log) -> bool {
        let variants = match s {
            DataModelType::Enum { name: _, variants } => *variants,
            _ => return false,
        };
        if l.n == 0 {
            return false;
        }
        let e = l.ev[0];
        let (idx, vname) = match e {
            Ev::UnitVariant(i, v) | Ev::NewtypeVariant(i, v) => (i, v),
            Ev::TupleVariant(i, v, _) | Ev::StructVariant(i, v, _) => (i, v),
            _ => return false,
        };
        if idx as usize >= variants.len() {
            return false;
        }
        let var: &Variant = variants[idx as usize];
        if !str_eq(var.name, vname) {
            return false;
        }
        match (&var.data, e) {
            (Data::Unit, Ev::UnitVariant(..)) => l.n == 1,
            (Data::Newtype(t), Ev::NewtypeVariant(..)) => l.n == 2 && leaf_ok(t, l.ev[1]),
            (Data::Tuple(ts), Ev::TupleVariant(_, _, n)) => {
                if n != ts.len() || l.n != n + 2 || l.ev[n + 1] != Ev::TupleVariantEnd {
                    return false;
                }
                let mut i = 0;
                while i < ts.len() {
                    if !leaf_ok(ts[i], l.ev[1 + i]) {
                        return false;
                    }
                    i += 1;
                }
                true
            }
            (Data::Struct(fs), Ev::StructVariant(_, _, n)) => {
                if n != fs.len() || l.n != 2 * n + 2 || l.ev[2 * n + 1] != Ev::StructVariantEnd {
                    return false;
                }
                let mut i = 0;
                while i < fs.len() {
                    match l.ev[1 + 2 * i] {
                        Ev::Field(k) if str_eq(k, fs[i].name) => {}
                        _ => return false,
                    }
                    if !leaf_ok(fs[i].ty, l.ev[2 + 2 * i]) {
                        return false;
                    }
                    i += 1;
                }
                true
            }
            _ => false,
        }
    }
    #[derive(serde::Serialize, crate::Schema)]
    #[postcard(crate = crate)]
    enum DFlat {
        Unit,
        New(u16),
        Tup(u8, i32),
        One { a: bool },
        Two { x: u8, yy: i64 },
    }
    macro_rules! d_flat_variant {
        ($name:ident, $v:expr) => {
            #[kani::proof]
            #[kani::unwind(6)]
            fn $name() {
                let v = $v;
                let mut log = Log::new();
                v.serialize(Rec(&mut log)).unwrap();
                assert!(enum_flat_ok(DFlat::SCHEMA, &log), "SPEC: the enum value's data-model items do not conform to the derived schema (variant form / index / name / arity / field names / leaf kinds)");
            }
        };
    }
    d_flat_variant!(d_flat_unit, DFlat::Unit);
    d_flat_variant!(d_flat_newtype, DFlat::New(kani::any()));
    d_flat_variant!(d_flat_tuple, DFlat::Tup(kani::any(), kani::any()));
    d_flat_variant!(d_flat_struct1, DFlat::One { a: kani::any() });
    d_flat_variant!(d_flat_struct2, DFlat::Two { x: kani::any(), yy: kani::any() });

    // identifier handling: field / variant names of every spelling class serde treats specially or not at all -
    // leading letters incl. `r`, leading underscore, digits, upper case, raw identifiers (serde strips the `r#`).
    #[derive(serde::Serialize, crate::Schema)]
    #[postcard(crate = crate)]
    #[allow(non_snake_case)]
    struct DNames {
        r: u8,
        rr: u8,
        radius: u8,
        _under: u8,
        x1: u8,
        Camel: u8,
        r#type: u8,
    }
    #[derive(serde::Serialize, crate::Schema)]
    #[postcard(crate = crate)]
    #[allow(non_camel_case_types)]
    enum DVarNames {
        R,
        Rr,
        right,
        _U,
        r#match,
    }
    #[kani::proof]
    #[kani::unwind(9)]
    fn d_names_struct() {
        check(&DNames { r: 1, rr: 2, radius: 3, _under: 4, x1: 5, Camel: 6, r#type: 7 });
    }
    macro_rules! d_names_variant {
        ($name:ident, $v:expr) => {
            #[kani::proof]
            #[kani::unwind(9)]
            fn $name() {
                check(&$v);
            }
        };
    }
    d_names_variant!(d_names_v0, DVarNames::R);
    d_names_variant!(d_names_v1, DVarNames::Rr);
    d_names_variant!(d_names_v2, DVarNames::right);
    d_names_variant!(d_names_v3, DVarNames::_U);
    d_names_variant!(d_names_v4, DVarNames::r#match);
}
