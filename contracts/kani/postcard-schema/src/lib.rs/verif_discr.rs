// C12: the discriminant size used by #[derive(MaxSize)] bounds the varint(u32) of every variant index.
#[cfg(kani)]
mod verif_discr {
    include!("verif_extracted_discr.rs");

    fn enc_len(v: u32) -> u32 {
        let mut n = 1;
        let mut x = v >> 7;
        let mut k = 0;
        while k < 4 {
            if x != 0 {
                n += 1;
                x >>= 7;
            }
            k += 1;
        }
        n
    }
    #[kani::proof]
    #[kani::unwind(6)]
    fn discriminant_size() {
        let c: u32 = kani::any();
        let i: u32 = kani::any();
        kani::assume(c >= 1 && i < c);
        let d = varint_size_discriminant(c);
        kani::cover!(c == 128 && i == 127);
        kani::cover!(c == u32::MAX);
        assert!(enc_len(i) <= d, "SPEC: a variant index encodes to more bytes than the derive reserves for the discriminant");
        assert!(d <= enc_len(c - 1) + 1, "SPEC: the discriminant size is more than one byte above the largest index's length");
    }
}
