// C16 witnesses for the NON-recursive FNV primitives (the recursive hashers are intractable for CBMC, see DESIGN.md):
// hash_update / hash_update_str / Fnv1a64Hasher against an independently written FNV-1a 64, every state, every byte value.
#[cfg(kani)]
mod verif_fnv {
    use super::fnv1a64::{hash_update, hash_update_str};
    use super::Fnv1a64Hasher;

    fn step(h: u64, b: u8) -> u64 {
        (h ^ (b as u64)).wrapping_mul(0x0000_0100_0000_01b3)
    }
    #[kani::proof]
    #[kani::unwind(5)]
    fn fnv_hash_update() {
        let state: u64 = kani::any();
        let b: [u8; 3] = kani::any();
        let l: usize = kani::any();
        kani::assume(l <= 3);
        let mut want = state;
        if l >= 1 { want = step(want, b[0]); }
        if l >= 2 { want = step(want, b[1]); }
        if l >= 3 { want = step(want, b[2]); }
        kani::cover!(l == 3 && b[0] >= 0x80);
        assert!(hash_update(state, &b[..l]) == want, "SPEC: hash_update must be FNV-1a 64 over the bytes (xor the unsigned byte, multiply by the prime)");
    }
    #[kani::proof]
    #[kani::unwind(5)]
    fn fnv_hash_update_str() {
        let state: u64 = kani::any();
        // "a" + one two-byte scalar (C2..DF 80..BF) + optional ASCII byte: multi-byte path strings
        let b: [u8; 4] = kani::any();
        kani::assume(b[0] < 0x80 && b[1] >= 0xC2 && b[1] <= 0xDF && b[2] >= 0x80 && b[2] <= 0xBF && b[3] < 0x80);
        let l: usize = kani::any();
        kani::assume(l == 0 || l == 1 || l == 3 || l == 4);
        let s = unsafe { core::str::from_utf8_unchecked(&b[..l]) };
        let mut want = state;
        let mut i = 0;
        while i < 4 {
            if i < l { want = step(want, b[i]); }
            i += 1;
        }
        kani::cover!(l == 4);
        assert!(hash_update_str(state, s) == want, "SPEC: hash_update_str must be FNV-1a 64 over the UTF-8 bytes of the string");
    }
    #[kani::proof]
    #[kani::unwind(10)]
    fn fnv_hasher() {
        let b: [u8; 2] = kani::any();
        let mut h = Fnv1a64Hasher::new();
        h.update(&b);
        let want = step(step(0xcbf2_9ce4_8422_2325, b[0]), b[1]);
        let mut h2 = Fnv1a64Hasher::new();
        h2.update(&b);
        assert!(h.digest() == want, "SPEC: Fnv1a64Hasher must be FNV-1a 64 from the standard offset basis");
        assert!(h2.digest_bytes() == want.to_le_bytes(), "SPEC: digest_bytes must be the little-endian digest");
    }
}
