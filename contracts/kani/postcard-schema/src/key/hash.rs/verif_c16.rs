// C16 witness: compile-time hasher vs run-time hasher vs an independent reference of the documented tag stream,
// on a corpus of trees that exercises every one of the 33 tags in every position class. Bounded; its role is to
// produce a concrete failing tree when a Route-V postcondition breaks.
#[cfg(kani)]
mod verif_c16 {
    use super::fnv1a64::hash_ty_path;
    use super::fnv1a64_owned::hash_ty_path_owned;
    use crate::schema::owned::OwnedDataModelType;
    use crate::schema::{Data, DataModelType as D, NamedField, Variant};
    use crate::Schema;

    struct Buf {
        b: [u8; 96],
        n: usize,
    }
    impl Buf {
        fn byte(&mut self, x: u8) {
            self.b[self.n] = x;
            self.n += 1;
        }
        fn str(&mut self, s: &str) {
            let s = s.as_bytes();
            let mut i = 0;
            while i < s.len() {
                self.byte(s[i]);
                i += 1;
            }
        }
    }
    // reference tag stream, written from the documented table (independent third copy)
    fn st(t: &D, o: &mut Buf) {
        match t {
            D::Bool => o.byte(0x11), D::I8 => o.byte(0xC5), D::U8 => o.byte(0x3D), D::I16 => o.byte(0x1D), D::I32 => o.byte(0x0D),
            D::I64 => o.byte(0x0B), D::I128 => o.byte(0x02), D::U16 => o.byte(0x83), D::U32 => o.byte(0xD3), D::U64 => o.byte(0x13),
            D::U128 => o.byte(0x8B), D::Usize => o.byte(0x6B), D::Isize => o.byte(0xAD), D::F32 => o.byte(0xEF), D::F64 => o.byte(0x71),
            D::Char => o.byte(0xC1), D::String => o.byte(0x25), D::ByteArray => o.byte(0x65), D::Unit => o.byte(0x47), D::Schema => o.byte(0xE5),
            D::Option(i) => { o.byte(0x6D); st(i, o) }
            D::Seq(i) => { o.byte(0x03); st(i, o) }
            D::Tuple(ts) => { o.byte(0xA7); let mut i = 0; while i < ts.len() { st(ts[i], o); i += 1; } }
            D::Map { key, val } => { o.byte(0x4F); st(key, o); st(val, o) }
            D::Struct { name: _, data } => st_data(data, [0xBF, 0x9D, 0x05, 0x7F], o),
            D::Enum { name: _, variants } => {
                o.byte(0xE9);
                let mut i = 0;
                while i < variants.len() { o.str(variants[i].name); st_data(&variants[i].data, [0xB5, 0xDF, 0xC7, 0x67], o); i += 1; }
            }
        }
    }
    fn st_data(d: &Data, tags: [u8; 4], o: &mut Buf) {
        match d {
            Data::Unit => o.byte(tags[0]),
            Data::Newtype(t) => { o.byte(tags[1]); st(t, o) }
            Data::Tuple(ts) => { o.byte(tags[2]); let mut i = 0; while i < ts.len() { st(ts[i], o); i += 1; } }
            Data::Struct(fs) => { o.byte(tags[3]); let mut i = 0; while i < fs.len() { o.str(fs[i].name); st(fs[i].ty, o); i += 1; } }
        }
    }
    fn fnv(bytes: &[u8]) -> u64 {
        let mut h: u64 = 0xcbf2_9ce4_8422_2325;
        let mut i = 0;
        while i < bytes.len() {
            h ^= bytes[i] as u64;
            h = h.wrapping_mul(0x0000_0100_0000_01b3);
            i += 1;
        }
        h
    }

    static T_LEAVES: D = D::Tuple(&[&D::Bool, &D::I8, &D::U8, &D::I16, &D::I32, &D::I64, &D::I128, &D::U16, &D::U32, &D::U64, &D::U128,
        &D::Usize, &D::Isize, &D::F32, &D::F64, &D::Char, &D::String, &D::ByteArray, &D::Unit, &D::Schema]);
    static T_NEST: D = D::Option(&D::Seq(&D::Map { key: &D::U8, val: &D::String }));
    static T_STRUCTS: D = D::Tuple(&[
        &D::Struct { name: "SU", data: Data::Unit },
        &D::Struct { name: "SN", data: Data::Newtype(&D::U16) },
        &D::Struct { name: "ST", data: Data::Tuple(&[&D::U8, &D::I8]) },
        &D::Struct { name: "SS", data: Data::Struct(&[&NamedField { name: "a", ty: &D::U8 }, &NamedField { name: "bc", ty: &D::Bool }]) },
    ]);
    static T_ENUM: D = D::Enum { name: "E", variants: &[
        &Variant { name: "A", data: Data::Unit },
        &Variant { name: "Bb", data: Data::Newtype(&D::U32) },
        &Variant { name: "C", data: Data::Tuple(&[&D::U8, &D::F32]) },
        &Variant { name: "D", data: Data::Struct(&[&NamedField { name: "x", ty: &D::I64 }]) },
    ] };

    struct M1; struct M2; struct M3; struct M4;
    impl Schema for M1 { const SCHEMA: &'static D = &T_LEAVES; }
    impl Schema for M2 { const SCHEMA: &'static D = &T_NEST; }
    impl Schema for M3 { const SCHEMA: &'static D = &T_STRUCTS; }
    impl Schema for M4 { const SCHEMA: &'static D = &T_ENUM; }

    fn one<T: Schema>(path: &str) {
        let k_static = hash_ty_path::<T>(path);
        let owned = OwnedDataModelType::from(T::SCHEMA);
        let k_owned = hash_ty_path_owned(path, &owned);
        core::mem::forget(owned);
        let mut b = Buf { b: [0; 96], n: 0 };
        b.str(path);
        st(T::SCHEMA, &mut b);
        let want = fnv(&b.b[..b.n]).to_le_bytes();
        assert!(k_static == want, "SPEC: compile-time key differs from FNV-1a over path ++ documented tag stream (little-endian)");
        assert!(k_owned == want, "SPEC: run-time key differs from FNV-1a over path ++ documented tag stream (little-endian)");
    }
    #[kani::proof]
    #[kani::unwind(100)]
    fn witness_leaves() { one::<M1>("p"); }
    #[kani::proof]
    #[kani::unwind(100)]
    fn witness_nest() { one::<M2>(""); }
    #[kani::proof]
    #[kani::unwind(100)]
    fn witness_structs() { one::<M3>("a/b"); }
    #[kani::proof]
    #[kani::unwind(100)]
    fn witness_enum() { one::<M4>("\u{e9}"); }
}
