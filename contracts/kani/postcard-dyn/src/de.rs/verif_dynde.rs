// C17 / C18 (partial): leaf arms of the dynamic decoder against the static decoder, and totality of every leaf kind.
// The produced serde_json::Value is inspected through as_u64()/as_i64()/as_bool() and then mem::forget-ed: its drop
// glue (BTreeMap deallocation loops) is not tractable for CBMC (measured).
#[cfg(kani)]
mod verif_dynde {
    use super::*;
    use postcard_schema::schema::owned::OwnedDataModelType as O;

    macro_rules! leaf_unsigned {
        ($name:ident, $kind:expr, $ty:ty, $n:expr) => {
            /// dynamic decode == static decode on EVERY byte string <= max+1: accept/reject, value, remainder
            #[kani::proof]
            #[kani::unwind(22)]
            fn $name() {
                let b: [u8; $n] = kani::any();
                let l: usize = kani::any();
                kani::assume(l <= $n);
                let inp = &b[..l];
                let st = postcard::take_from_bytes::<$ty>(inp);
                let dy = deserialize(&$kind, inp);
                match (dy, st) {
                    (Ok((v, rest)), Ok((w, rest2))) => {
                        assert!(v.as_u64() == Some(w as u64), "SPEC: dynamic decoder's value differs from the static decoder's");
                        assert!(rest.len() == rest2.len(), "SPEC: dynamic decoder consumed a different number of bytes");
                        core::mem::forget(v);
                    }
                    (Err(_), Err(_)) => {}
                    (Ok((v, _)), Err(_)) => { core::mem::forget(v); panic!("SPEC: dynamic decoder accepts what the static decoder rejects") }
                    (Err(_), Ok(_)) => panic!("SPEC: dynamic decoder rejects what the static decoder accepts"),
                }
            }
        };
    }
    macro_rules! leaf_signed {
        ($name:ident, $kind:expr, $ty:ty, $n:expr) => {
            #[kani::proof]
            #[kani::unwind(22)]
            fn $name() {
                let b: [u8; $n] = kani::any();
                let l: usize = kani::any();
                kani::assume(l <= $n);
                let inp = &b[..l];
                let st = postcard::take_from_bytes::<$ty>(inp);
                let dy = deserialize(&$kind, inp);
                match (dy, st) {
                    (Ok((v, rest)), Ok((w, rest2))) => {
                        assert!(v.as_i64() == Some(w as i64), "SPEC: dynamic decoder's value differs from the static decoder's");
                        assert!(rest.len() == rest2.len());
                        core::mem::forget(v);
                    }
                    (Err(_), Err(_)) => {}
                    (Ok((v, _)), Err(_)) => { core::mem::forget(v); panic!("SPEC: dynamic decoder accepts what the static decoder rejects") }
                    (Err(_), Ok(_)) => panic!("SPEC: dynamic decoder rejects what the static decoder accepts"),
                }
            }
        };
    }
    leaf_unsigned!(leaf_u8, O::U8, u8, 2);
    leaf_unsigned!(leaf_u16, O::U16, u16, 4);
    leaf_unsigned!(leaf_u32, O::U32, u32, 6);
    leaf_unsigned!(leaf_u64, O::U64, u64, 11);
    leaf_unsigned!(leaf_usize, O::Usize, usize, 11);
    leaf_signed!(leaf_i8, O::I8, i8, 2);
    leaf_signed!(leaf_i16, O::I16, i16, 4);
    leaf_signed!(leaf_i32, O::I32, i32, 6);
    leaf_signed!(leaf_i64, O::I64, i64, 11);
    leaf_signed!(leaf_isize, O::Isize, isize, 11);

    #[kani::proof]
    #[kani::unwind(4)]
    fn leaf_bool() {
        let b: [u8; 2] = kani::any();
        let l: usize = kani::any();
        kani::assume(l <= 2);
        let inp = &b[..l];
        match (deserialize(&O::Bool, inp), postcard::take_from_bytes::<bool>(inp)) {
            (Ok((v, rest)), Ok((w, rest2))) => {
                assert!(v.as_bool() == Some(w) && rest.len() == rest2.len());
                core::mem::forget(v);
            }
            (Err(_), Err(_)) => {}
            _ => panic!("SPEC: dynamic and static bool decoding disagree"),
        }
    }

    fn total(kind: &O, inp: &[u8]) {
        match from_slice_dyn(kind, inp) {
            Ok(v) => core::mem::forget(v),
            Err(_) => {}
        }
    }
    /// C18: every scalar leaf kind returns a value or an error on every byte string (no panic, no overflow, no OOB)
    #[kani::proof]
    #[kani::unwind(22)]
    fn total_numeric_leaves() {
        let b: [u8; 20] = kani::any();
        let l: usize = kani::any();
        kani::assume(l <= 20);
        let inp = &b[..l];
        total(&O::Bool, inp);
        total(&O::I8, inp);
        total(&O::U8, inp);
        total(&O::I16, inp);
        total(&O::U16, inp);
        total(&O::I32, inp);
        total(&O::U32, inp);
        total(&O::I64, inp);
        total(&O::U64, inp);
        total(&O::I128, inp);
        total(&O::U128, inp);
        total(&O::Usize, inp);
        total(&O::Isize, inp);
        total(&O::Unit, inp);
    }
    #[kani::proof]
    #[kani::unwind(12)]
    fn total_floats() {
        let b: [u8; 9] = kani::any();
        let l: usize = kani::any();
        kani::assume(l <= 9);
        let inp = &b[..l];
        total(&O::F32, inp);
        total(&O::F64, inp);
    }
    #[kani::proof]
    #[kani::unwind(6)]
    fn total_char() {
        let b: [u8; 3] = kani::any();
        let l: usize = kani::any();
        kani::assume(l <= 3);
        total(&O::Char, &b[..l]);
    }
    #[kani::proof]
    #[kani::unwind(6)]
    fn total_schema() {
        let b: [u8; 3] = kani::any();
        let l: usize = kani::any();
        kani::assume(l <= 3);
        total(&O::Schema, &b[..l]);
    }

    /// C17 helper contract: TakeExt::{take_one, take_n} split exactly, bounds-checked
    #[kani::proof]
    fn take_ext() {
        let b: [u8; 6] = kani::any();
        let l: usize = kani::any();
        kani::assume(l <= 6);
        let inp = &b[..l];
        match inp.take_one() {
            Ok((x, rest)) => assert!(l >= 1 && x == b[0] && rest.len() == l - 1 && rest.as_ptr() == inp[1..].as_ptr()),
            Err(e) => assert!(l == 0 && e == Error::UnexpectedEndOfData),
        }
        let n: usize = kani::any();
        match inp.take_n(n) {
            Ok((a, rest)) => assert!(n <= l && a.len() == n && rest.len() == l - n && a.as_ptr() == inp.as_ptr()),
            Err(e) => assert!(n > l && e == Error::UnexpectedEndOfData),
        }
    }

    /// C17: float leaves: dynamic decode == static decode for every byte string <= 9 whose float is FINITE
    #[kani::proof]
    #[kani::unwind(12)]
    fn leaf_floats() {
        let b: [u8; 9] = kani::any();
        let l: usize = kani::any();
        kani::assume(l <= 9);
        let inp = &b[..l];
        match (deserialize(&O::F64, inp), postcard::take_from_bytes::<f64>(inp)) {
            (Ok((v, rest)), Ok((w, rest2))) => {
                assert!(v.as_f64() == Some(w) && rest.len() == rest2.len(), "SPEC: dynamic f64 differs from the static decoder's");
                core::mem::forget(v);
            }
            (Err(_), Ok((w, _))) => assert!(!w.is_finite(), "SPEC: dynamic decoder rejects a finite f64"),
            (Err(_), Err(_)) => {}
            (Ok((v, _)), Err(_)) => { core::mem::forget(v); panic!("SPEC: dynamic decoder accepts a truncated f64") }
        }
        match (deserialize(&O::F32, inp), postcard::take_from_bytes::<f32>(inp)) {
            (Ok((v, rest)), Ok((w, rest2))) => {
                assert!(v.as_f64() == Some(w as f64) && rest.len() == rest2.len(), "SPEC: dynamic f32 differs from the static decoder's");
                core::mem::forget(v);
            }
            (Err(_), Ok((w, _))) => assert!(!w.is_finite(), "SPEC: dynamic decoder rejects a finite f32"),
            (Err(_), Err(_)) => {}
            (Ok((v, _)), Err(_)) => { core::mem::forget(v); panic!("SPEC: dynamic decoder accepts a truncated f32") }
        }
    }
}
