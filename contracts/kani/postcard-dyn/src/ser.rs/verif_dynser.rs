// C17 (partial): leaf arms of the dynamic encoder against the static encoder.
#[cfg(kani)]
mod verif_dynser {
    use super::*;
    use postcard_schema::schema::owned::OwnedDataModelType as O;
    use serde_json::Number;

    fn same(out: &Vec<u8>, want: &[u8]) {
        assert!(out.len() == want.len(), "SPEC: dynamic encoder's length differs from the static encoder's");
        let i: usize = kani::any();
        kani::assume(i < want.len());
        assert!(out[i] == want[i], "SPEC: dynamic encoder's bytes differ from the static encoder's");
    }
    macro_rules! leaf {
        ($name:ident, $kind:expr, $ty:ty, $n:expr) => {
            /// to_stdvec_dyn(kind, json(v)) == static encoding of v, for EVERY v of the type
            #[kani::proof]
            #[kani::unwind(22)]
            fn $name() {
                let v: $ty = kani::any();
                let j = Value::Number(Number::from(v));
                let mut out = Vec::new();
                let r = ser_named_type(&$kind, &j, &mut out);
                assert!(r.is_ok(), "SPEC: dynamic encoder rejects a value of the schema's type");
                let mut buf = [0u8; $n];
                let want = postcard::to_slice(&v, &mut buf).unwrap();
                same(&out, want);
                core::mem::forget(out);
                core::mem::forget(j);
            }
        };
    }
    leaf!(leaf_u8, O::U8, u8, 1);
    leaf!(leaf_u16, O::U16, u16, 3);
    leaf!(leaf_u32, O::U32, u32, 5);
    leaf!(leaf_u64, O::U64, u64, 10);
    leaf!(leaf_i8, O::I8, i8, 1);
    leaf!(leaf_i16, O::I16, i16, 3);
    leaf!(leaf_i32, O::I32, i32, 5);
    leaf!(leaf_i64, O::I64, i64, 10);

    #[kani::proof]
    #[kani::unwind(4)]
    fn leaf_bool() {
        let v: bool = kani::any();
        let j = Value::Bool(v);
        let mut out = Vec::new();
        assert!(ser_named_type(&O::Bool, &j, &mut out).is_ok());
        assert!(out.len() == 1 && out[0] == v as u8);
        core::mem::forget(out);
    }

    /// C18: leaf kinds on a symbolic leaf JSON value (null / bool / u64 / i64): a result or an error, never a panic
    fn total(kind: &O, j: &Value) {
        let mut out = Vec::new();
        let _ = ser_named_type(kind, j, &mut out);
        core::mem::forget(out);
    }
    #[kani::proof]
    #[kani::unwind(22)]
    fn total_leaves() {
        let which: u8 = kani::any();
        let j = match which {
            0 => Value::Null,
            1 => Value::Bool(kani::any()),
            2 => Value::Number(Number::from(kani::any::<u64>())),
            _ => Value::Number(Number::from(kani::any::<i64>())),
        };
        total(&O::Bool, &j);
        total(&O::I8, &j);
        total(&O::U8, &j);
        total(&O::I16, &j);
        total(&O::U16, &j);
        total(&O::I32, &j);
        total(&O::U32, &j);
        total(&O::I64, &j);
        total(&O::U64, &j);
        total(&O::I128, &j);
        total(&O::U128, &j);
        total(&O::Usize, &j);
        total(&O::Isize, &j);
        total(&O::Unit, &j);
        total(&O::F32, &j);
        total(&O::F64, &j);
        core::mem::forget(j);
    }
    #[kani::proof]
    #[kani::unwind(8)]
    fn total_schema() {
        let j = Value::Null;
        total(&O::Schema, &j);
    }

    /// C17: f64 leaf: to_stdvec_dyn(F64, json(v)) == static encoding, for every FINITE v (non-finite floats have no JSON number)
    #[kani::proof]
    #[kani::unwind(10)]
    fn leaf_f64() {
        let v: f64 = kani::any();
        kani::assume(v.is_finite());
        let j = Value::Number(Number::from_f64(v).unwrap());
        let mut out = Vec::new();
        assert!(ser_named_type(&O::F64, &j, &mut out).is_ok(), "SPEC: dynamic encoder rejects a finite f64");
        let want = v.to_bits().to_le_bytes();
        assert!(out.len() == 8, "SPEC: f64 is eight bytes");
        let i: usize = kani::any();
        kani::assume(i < 8);
        assert!(out[i] == want[i], "SPEC: dynamic f64 bytes differ from the little-endian IEEE-754 pattern");
        core::mem::forget(out);
        core::mem::forget(j);
    }

    /// C18: string-valued JSON (incl. multi-byte and empty strings) against every scalar kind incl. Char / String: result or error, never a panic
    #[kani::proof]
    #[kani::unwind(12)]
    fn total_string_json() {
        let which: u8 = kani::any();
        let s: &str = match which {
            0 => "",
            1 => "a",
            2 => "\u{e9}",
            3 => "ab",
            _ => "\u{1F980}",
        };
        let j = Value::String(String::from(s));
        total(&O::Char, &j);
        total(&O::String, &j);
        total(&O::Bool, &j);
        total(&O::U8, &j);
        total(&O::I64, &j);
        total(&O::F32, &j);
        total(&O::Unit, &j);
        core::mem::forget(j);
    }
}
